#!/bin/bash
# revert_sweep.sh : every "fixed:" line of KNOWN_FINDINGS.txt names a repair commit; revert each one
# in a scratch worktree and confirm that the property's quick check reports the defect again.
cd "$(dirname "$0")"
grep '^fixed:' KNOWN_FINDINGS.txt | while read -r _ prop commit rest; do
  p="${prop#property=}"
  ./selfcheck.sh "revert:$commit" "$p" 2>&1 | tail -1 | cut -c1-300
done
