#!/usr/bin/env python3
"""Regenerates MANIFEST.json from the table below (kept next to the code so the two stay in step)."""
import json, subprocess

ENV = "GOFLAGS=-mod=mod GOPROXY=off GOSUMDB=off GOTOOLCHAIN=local"
checks = {
 "C01": ("reference-model monitor + axis dual/partition relations over exhaustive per-document step enumeration (store, independent and per-access-allocating Cursor implementations; threshold-sized and deep documents; ExprWhitespace spellings)", "7 C01"),
 "C02": ("reference-model monitor + probe-function trace monitor + metamorphic identities; two-document queries; one 70 000-child node list per run", "7 C02"),
 "C03": ("slice invariant monitor on every returned node-set (identity, membership, data-model document order) + union-law relations; lazily allocated cursors; concurrent queries on two trees; context-appending custom functions", "7 C03"),
 "C04": ("reference-model monitor for conversions at API and expression level, typed entry points, documents through ReadXml and ReadHtml, two-document comparisons", "7 C04"),
 "C05": ("reference-model monitor over the 4x4 operand type matrix + operator relations", "7 C05"),
 "C06": ("IEEE-754 reference monitor (bit-pattern compare) for operators and numeric functions; operands as names, caller-ordered node-sets and caller-defined Result types; ExecAsNumber", "7 C06"),
 "C07": ("reference-model monitor over []rune + UTF-8 validity + string-function relations; node-set arguments; builtin names shadowed in one call of each case", "7 C07"),
 "C08": ("reference recogniser/evaluator monitor over three renderings of typed ASTs + classification of mutated and random strings; counterfactual attribution to open grammar findings", "7 C08"),
 "C09": ("parallel-walk data-model monitor over randomised serialisations, five reader delivery patterns, alternating parsers, option-hook scope + encoding/xml as error oracle for mutated bytes", "7 C09"),
 "C10": ("structural invariant monitor on built trees (incl. overlapping builds and end-event payload variants) + call-depth trace monitor inside Pull() + stack-capped child builds", "7 C10"),
 "C11": ("reference-model monitor under random binding environments + renaming/re-serialisation invariance + user-function trace monitor", "7 C11"),
 "C12": ("reference-model monitor for node functions from every context node; documents through ReadHtml; deep chains; two-document queries", "7 C12"),
 "C13": ("history monitor: before/after deep snapshots of tree, caller-held NodeSets (all cap elements), binding maps, Grammar structural hash; repeat-execution determinism across per-call function libraries; cases run serially in shard child processes so library globals are observable", "7 C13"),
 "C14": ("Go race detector (GORACE log files, de-duplicated) over barrier-started concurrent Exec rounds + serial/concurrent result comparison + CLI -c N vs -c 1 block comparison under injected yields", "7 C14"),
 "C15": ("crash/abort monitor: hostile inputs in journaling child processes, recovered panics, (nil,nil) and 'xpath query panic' detection, per-case processor-time budget (rusage) as the termination monitor", "7 C15"),
 "C16": ("README-mapping reference monitor (parallel walk) + encoding/json as error oracle for every prefix and token edits; inputs delivered whole and piecewise (chunked / one-byte / cut-after-closer readers)", "7 C16"),
 "C17": ("html.Parse DOM as reference, parallel-walk monitor over generated tag soup; five reader delivery patterns; two parsers pulled alternately", "7 C17"),
 "C18": ("split/unsplit composition relation (library vs library) + reference-model monitor from every start node", "7 C18"),
 "C19": ("reflection-based expected-value monitor computed from separate Exec calls; error/panic monitor for unfillable targets", "7 C19"),
 "C20": ("CLI stdout/stderr monitor against records computed through the library API; -m records re-parsed and compared with the selected subtree", "7 C20"),
}
pending = {}
ALL = ["C%02d" % i for i in range(1, 21)]

def main():
    hooks_commits = []
    try:
        out = subprocess.run(["git", "-C", "/repo", "log", "--format=%H", "--grep=^hook:"], capture_output=True, text=True).stdout.split()
        hooks_commits = out
    except Exception:
        pass
    m = {
        "version": 1,
        "setup_cmd": "./run.sh build && ./run.sh selftest",
        "hooks": {
            "guard": "verif",
            "enable": "go build -tags verif (run.sh builds bin/xvmon and the race/CLI binaries with -tags verif against /repo's working tree through the go.mod replace directive)",
            "baseline_off_cmd": f"cd /repo && {ENV} go test -vet=off -count=1 ./...",
            "source_commits": hooks_commits,
            "add_only": True,
        },
        "engines": [{
            "name": "xvmon", "path": "cmd/xvmon", "serves_properties": sorted(checks),
            "kind_free_text": "runtime monitors: the real library is executed on PRNG-determined hostile workloads; oracles are a reference XPath 1.0 evaluator/recogniser over abstract documents, trace monitors fed by instrumented user functions and scripted parsers, structural/metamorphic invariants, the Go race detector, and child-process containment",
        }],
        "checks": [],
        "not_applicable": [],
        "notes": "All checks rebuild from /repo's working tree (go.mod replace => /repo). Exit 0 held / 1 VIOLATION / 2 check broken or inconclusive. KNOWN_FINDINGS.txt lists open findings and repaired defects. VERIF_SEED selects the PRNG seed; case lists are functions of (seed, property, tier) only.",
    }
    for pid in ALL:
        if pid in checks:
            tech, ref = checks[pid]
            m["checks"].append({
                "property_id": pid,
                "quick_cmd": f"./run.sh {pid} quick",
                "thorough_cmd": f"./run.sh {pid} thorough",
                "evidence_file": f"/verif/evidence/{pid}.json",
                "replay_cmd_template": "./run.sh replay {path}",
                "engine": "xvmon",
                "level_claimed": {
                    "category": "exploration",
                    "text": "The property held on every execution this run produced (counts, coverage tables and samples are in the evidence file); it says nothing about inputs that were not generated. Exploration is the right level for a runtime-monitoring family: the deciding step is an oracle observing real executions of the library.",
                    "design_ref": "DESIGN.md §" + ref,
                },
                "level_note": "Trusted base: the reference model (internal/refeval, internal/refparse; self-tested against the recommendation's worked examples at the start of every check), the abstract-document generators, Go's runtime and standard library.",
                "technique": tech,
            })
        else:
            m["not_applicable"].append({"property_id": pid, "reason": pending.get(pid, "monitor not built yet in this round (planned, see DESIGN.md §7)")})
    json.dump(m, open("MANIFEST.json", "w"), indent=1)
    print("checks:", len(m["checks"]), "not_applicable:", len(m["not_applicable"]))

main()
