package xast

import (
	"xselverif/internal/rng"
)

// Typed random expression generator. Only well-typed XPath 1.0 is produced
// (paths over node-sets, '|' over node-sets, node-set parameters given
// node-sets); the feature palette is chosen by each monitor.

type Type int

const (
	TNodeSet Type = iota
	TNum
	TStr
	TBool
	TAnyType
)

type QN struct{ Prefix, Local string }

type VarSpec struct {
	Prefix, Local string
	T             Type
}

type Cfg struct {
	Elems    []QN     // element names (prefix under the query's bindings)
	Attrs    []QN     // attribute names
	Prefixes []string // bound prefixes usable in p:* tests
	Targets  []string // PI targets
	Axes     []string // allowed axes (nil = all but namespace)
	Funcs    map[string]bool
	Vars     []VarSpec
	NumLits  []float64
	StrLits  []string

	MaxSteps  int
	MaxDepth  int
	PredPct   int  // chance of a predicate on a step
	AbsInPred bool // absolute paths may appear inside predicates / arguments
	FnSteps   bool // zero-argument builtins as trailing path steps
	Filters   bool // (E)[p], (E)/step, $v/step forms
	Unions    bool
	Abbrev    int // percent of steps spelled with abbreviations when possible

	IntPredsOnly bool // no fractional numeric predicate literals (engines disagree with the recommendation there)
}

type Gen struct {
	R *rng.R
	C *Cfg
}

func (g *Gen) has(f string) bool { return g.C.Funcs == nil || g.C.Funcs[f] }

var forwardish = []string{"child", "descendant", "descendant-or-self", "following", "following-sibling", "self", "attribute", "parent", "ancestor", "ancestor-or-self", "preceding", "preceding-sibling"}

func (g *Gen) axis() string {
	if g.C.Axes != nil {
		return rng.Pick(g.R, g.C.Axes)
	}
	// child-heavy, like real queries
	if g.R.P(45) {
		return "child"
	}
	return rng.Pick(g.R, forwardish)
}

func (g *Gen) Test(axis string) Test {
	r := g.R
	names := g.C.Elems
	if axis == "attribute" {
		names = g.C.Attrs
	}
	if axis == "namespace" {
		if r.Bool() {
			return Test{Kind: TAny}
		}
		return Test{Kind: TNode}
	}
	switch k := r.Intn(20); {
	case k < 9 && len(names) > 0:
		n := rng.Pick(r, names)
		return Test{Kind: TName, Prefix: n.Prefix, Local: n.Local}
	case k < 12:
		return Test{Kind: TAny}
	case k < 15:
		return Test{Kind: TNode}
	case k == 15:
		return Test{Kind: TText}
	case k == 16:
		if r.Bool() {
			return Test{Kind: TComment}
		}
		if len(g.C.Targets) > 0 && r.Bool() {
			return Test{Kind: TPITarget, Local: rng.Pick(r, g.C.Targets)}
		}
		return Test{Kind: TPI}
	case k == 17 && len(g.C.Prefixes) > 0:
		return Test{Kind: TNSAny, Prefix: rng.Pick(r, g.C.Prefixes)}
	case k == 18 && len(names) > 0:
		return Test{Kind: TLocalAny, Local: rng.Pick(r, names).Local}
	}
	if len(names) > 0 {
		n := rng.Pick(r, names)
		return Test{Kind: TName, Prefix: n.Prefix, Local: n.Local}
	}
	return Test{Kind: TAny}
}

func (g *Gen) Step(depth int) Step {
	ax := g.axis()
	s := Step{Axis: ax, Test: g.Test(ax)}
	if g.R.P(g.C.Abbrev) {
		s.Abbrev = true
	}
	if s.Abbrev && (ax == "self" || ax == "parent") {
		// '.' and '..' cannot carry predicates and force node()
		s.Test = NodeT()
		return s
	}
	if depth < g.C.MaxDepth {
		for n := 0; n < 3 && g.R.P(g.C.PredPct); n++ {
			s.Preds = append(s.Preds, g.Pred(depth+1))
		}
	}
	return s
}

// Pred draws from the predicate classes of DESIGN §7 C02.
func (g *Gen) Pred(depth int) Expr {
	r := g.R
	switch r.Intn(20) {
	case 18, 19:
		// position()/last() buried inside function arguments and boolean connectives
		if g.has("position") && g.has("not") {
			k := N(float64(r.Range(1, 3)))
			var inner Expr = Binary{rng.Pick(r, []string{"=", "!=", "<", ">"}), Fn("position"), k}
			if g.has("last") && r.P(40) {
				inner = Binary{rng.Pick(r, []string{"=", "!="}), Fn("position"), Fn("last")}
			}
			wrapped := Fn("not", inner)
			if g.has("boolean") && r.P(30) {
				wrapped = Fn("boolean", inner)
			}
			if g.has("number") && g.has("last") && r.P(20) {
				return Binary{"=", Fn("number", Fn("last")), Fn("position")}
			}
			if depth <= g.C.MaxDepth && r.P(60) {
				return Binary{rng.Pick(r, []string{"and", "or"}), g.relPathN(depth+1, 1), wrapped}
			}
			return wrapped
		}
		return N(2)
	case 16, 17:
		// number-valued predicates that depend on the context node: [n] must still be [position() = n] per node
		self := Rel(Step{Axis: "self", Test: NodeT(), Abbrev: true})
		cands := []Expr{Fn("position"), Fn("count", Rel(Step{Axis: "child", Test: AnyT(), Abbrev: true})), Fn("string-length", self),
			Binary{"-", Fn("last"), Fn("count", Rel(Step{Axis: "child", Test: NodeT(), Abbrev: true}))}, Fn("number", self),
			Binary{"+", Fn("count", Rel(Step{Axis: "attribute", Test: AnyT(), Abbrev: true})), N(1)}}
		if len(g.C.Attrs) > 0 {
			a := rng.Pick(r, g.C.Attrs)
			cands = append(cands, Fn("number", Rel(Step{Axis: "attribute", Test: NameT(a.Prefix, a.Local), Abbrev: true})))
		}
		var ok []Expr
		for _, c := range cands {
			good := true
			Walk(c, func(x Expr) {
				if call, isCall := x.(Call); isCall && !g.has(call.Local) {
					good = false
				}
			})
			if good {
				ok = append(ok, c)
			}
		}
		if len(ok) > 0 {
			return rng.Pick(r, ok)
		}
		return N(1)
	case 0, 1:
		return N(float64(r.Range(1, 4)))
	case 2:
		if r.P(35) {
			// huge and oddly spelled literals: out of range, or equal to a small position
			b := g.bigNum()
			if g.has("position") && g.has("last") && r.P(40) {
				return rng.Pick(r, []Expr{Binary{"<", Fn("position"), b}, Binary{">", Fn("position"), b}, Binary{"-", Fn("last"), b}, Binary{"=", Fn("position"), b}})
			}
			return b
		}
		if g.C.IntPredsOnly {
			return rng.Pick(r, []Expr{N(0), N(7)})
		}
		return rng.Pick(r, []Expr{N(0), N(7), N(1.5), N(0.5), N(2.0000001)})
	case 3:
		if g.has("last") {
			if r.Bool() {
				return Fn("last")
			}
			return Binary{"-", Fn("last"), N(float64(r.Range(1, 2)))}
		}
	case 4:
		if g.has("position") {
			op := rng.Pick(r, []string{"=", "!=", "<", "<=", ">", ">="})
			return Binary{op, Fn("position"), N(float64(r.Range(1, 3)))}
		}
	case 5:
		if g.has("position") && g.has("last") {
			return Binary{rng.Pick(r, []string{"=", "<", "!="}), Fn("position"), Fn("last")}
		}
	case 6:
		if g.has("position") {
			return Binary{"=", Binary{"mod", Fn("position"), N(2)}, N(float64(r.Intn(2)))}
		}
	case 7:
		return rng.Pick(r, []Expr{Lit{"x"}, Lit{""}, Fn("true"), Fn("false")})
	case 8, 9, 10:
		if depth <= g.C.MaxDepth {
			return g.relPathN(depth+1, 2)
		}
	case 11:
		if depth <= g.C.MaxDepth && g.has("not") {
			return Call{Local: "not", Args: []Expr{g.relPathN(depth+1, 2)}}
		}
	case 12:
		if depth <= g.C.MaxDepth && g.has("count") {
			return Binary{rng.Pick(r, []string{">", "=", "<"}), Fn("count", g.relPathN(depth+1, 2)), N(float64(r.Intn(3)))}
		}
	case 13:
		if len(g.C.StrLits) > 0 {
			return Binary{rng.Pick(r, []string{"=", "!="}), Rel(Step{Axis: "self", Test: NodeT(), Abbrev: true}), Lit{rng.Pick(r, g.C.StrLits)}}
		}
	case 14:
		if g.C.AbsInPred && depth <= g.C.MaxDepth {
			p := g.relPathN(depth+1, 2)
			p.Abs = true
			return p
		}
	}
	if depth <= g.C.MaxDepth {
		return g.relPathN(depth+1, 1)
	}
	return N(1)
}

func (g *Gen) relPathN(depth, maxSteps int) Path {
	n := g.R.Range(1, maxSteps)
	var p Path
	for i := 0; i < n; i++ {
		if i > 0 && g.R.P(15) {
			p.Steps = append(p.Steps, DS())
		}
		p.Steps = append(p.Steps, g.Step(depth))
	}
	return p
}

// RelPath: 1..MaxSteps steps.
func (g *Gen) RelPath(depth int) Path {
	return g.relPathN(depth, g.C.MaxSteps)
}

func (g *Gen) AbsPath(depth int) Path {
	p := g.RelPath(depth)
	p.Abs = true
	if g.R.P(40) {
		p.Steps = append([]Step{DS()}, p.Steps...)
	}
	return p
}

var fnStepNames = []string{"string", "number", "name", "local-name", "namespace-uri", "string-length", "normalize-space"}

// NodeSetExpr: a node-set valued expression (path, union, filter forms).
func (g *Gen) NodeSetExpr(depth int, abs bool) Expr {
	r := g.R
	mk := func() Path {
		if abs {
			return g.AbsPath(depth)
		}
		return g.RelPath(depth)
	}
	switch k := r.Intn(10); {
	case k < 2 && g.C.Unions && depth < g.C.MaxDepth:
		return Binary{"|", g.NodeSetExpr(depth+1, abs), g.NodeSetExpr(depth+1, abs)}
	case k < 5 && g.C.Filters && depth < g.C.MaxDepth:
		inner := g.NodeSetExpr(depth+1, abs)
		p := Path{Head: Paren{inner}}
		if v := g.nodeSetVar(); v != nil && r.P(40) {
			p.Head = *v
		}
		for n := 0; n < 2 && r.P(60); n++ {
			p.HPred = append(p.HPred, g.Pred(depth+1))
		}
		if r.P(60) {
			if r.P(25) {
				p.Steps = append(p.Steps, DS())
			}
			p.Steps = append(p.Steps, g.relPathN(depth+1, 2).Steps...)
		}
		return p
	}
	return mk()
}

func (g *Gen) nodeSetVar() *Var {
	var cands []VarSpec
	for _, v := range g.C.Vars {
		if v.T == TNodeSet {
			cands = append(cands, v)
		}
	}
	if len(cands) == 0 {
		return nil
	}
	v := rng.Pick(g.R, cands)
	return &Var{Prefix: v.Prefix, Local: v.Local}
}

// WithFnStep appends a zero-argument builtin as the last step.
func (g *Gen) WithFnStep(p Path) Path {
	var ok []string
	for _, f := range fnStepNames {
		if g.has(f) {
			ok = append(ok, f)
		}
	}
	if len(ok) == 0 {
		return p
	}
	c := Call{Local: rng.Pick(g.R, ok)}
	p.Steps = append(append([]Step{}, p.Steps...), Step{Fn: &c})
	return p
}

// ---- general typed expressions (C08, C15) ----

func (g *Gen) varOf(t Type) *Var {
	var cands []VarSpec
	for _, v := range g.C.Vars {
		if v.T == t {
			cands = append(cands, v)
		}
	}
	if len(cands) == 0 {
		return nil
	}
	v := rng.Pick(g.R, cands)
	return &Var{Prefix: v.Prefix, Local: v.Local}
}

// BigNums are digit-only literals at and beyond the limits of the machine integer types; the
// value of each is the nearest double.
var BigNums = []Num{
	{V: 9223372036854775807, Text: "9223372036854775807"}, {V: 9223372036854775808, Text: "9223372036854775808"}, {V: 1e19, Text: "10000000000000000000"},
	{V: 18446744073709551616, Text: "18446744073709551616"}, {V: 18446744073709551616, Text: "18446744073709551617"}, {V: 18446744073709551616, Text: "18446744073709551618"},
	{V: 36893488147419103232, Text: "36893488147419103233"}, {V: 4294967297, Text: "4294967297"}, {V: 4294967298, Text: "4294967298"}, {V: 2147483649, Text: "2147483649"},
	{V: 1e30, Text: "1000000000000000000000000000001"}, {V: 4503599627370497, Text: "4503599627370497"}, {V: 9007199254740993, Text: "9007199254740993"},
	{V: 2, Text: "2.000"}, {V: 2, Text: "02"}, {V: 1, Text: "1.0"}, {V: 1, Text: "0000000000000000000001"},
}

func (g *Gen) bigNum() Num { return rng.Pick(g.R, BigNums) }

func (g *Gen) numLit() Expr {
	if len(g.C.NumLits) > 0 && g.R.P(50) {
		return N(rng.Pick(g.R, g.C.NumLits))
	}
	return N(float64(g.R.Intn(10)))
}

func (g *Gen) strLit() Expr {
	if len(g.C.StrLits) > 0 {
		return Lit{rng.Pick(g.R, g.C.StrLits)}
	}
	return Lit{"a"}
}

func (g *Gen) pickFn(names ...string) string {
	var ok []string
	for _, n := range names {
		if g.has(n) {
			ok = append(ok, n)
		}
	}
	if len(ok) == 0 {
		return ""
	}
	return rng.Pick(g.R, ok)
}

// Expr generates a well-typed expression of type t.
func (g *Gen) Expr(t Type, depth int) Expr {
	r := g.R
	leaf := depth >= g.C.MaxDepth
	if t == TAnyType {
		t = Type(r.Intn(4))
	}
	switch t {
	case TNodeSet:
		if leaf {
			p := g.relPathN(g.C.MaxDepth, 2)
			if r.P(40) {
				p.Abs = true
			}
			return p
		}
		return g.NodeSetExpr(depth, r.P(50))
	case TNum:
		if leaf {
			if v := g.varOf(TNum); v != nil && r.P(30) {
				return *v
			}
			return g.numLit()
		}
		switch r.Intn(9) {
		case 0, 1:
			return Binary{rng.Pick(r, []string{"+", "-", "*", "div", "mod"}), g.Expr(TNum, depth+1), g.Expr(TNum, depth+1)}
		case 2:
			return Neg{g.Expr(TNum, depth+1)}
		case 3:
			if f := g.pickFn("count", "sum"); f != "" {
				return Fn(f, g.Expr(TNodeSet, depth+1))
			}
		case 4:
			if f := g.pickFn("string-length"); f != "" {
				if r.P(25) {
					return Fn(f)
				}
				return Fn(f, g.Expr(TStr, depth+1))
			}
		case 5:
			if f := g.pickFn("number"); f != "" {
				if r.P(25) {
					return Fn(f)
				}
				return Fn(f, g.Expr(TAnyType, depth+1))
			}
		case 6:
			if f := g.pickFn("floor", "ceiling", "round"); f != "" {
				return Fn(f, g.Expr(TNum, depth+1))
			}
		case 7:
			if f := g.pickFn("position", "last"); f != "" {
				return Fn(f)
			}
		}
		return g.numLit()
	case TStr:
		if leaf {
			if v := g.varOf(TStr); v != nil && r.P(30) {
				return *v
			}
			return g.strLit()
		}
		switch r.Intn(9) {
		case 0:
			if f := g.pickFn("string"); f != "" {
				if r.P(25) {
					return Fn(f)
				}
				return Fn(f, g.Expr(TAnyType, depth+1))
			}
		case 1:
			if g.has("concat") {
				args := []Expr{g.Expr(TStr, depth+1), g.Expr(TAnyType, depth+1)}
				if r.Bool() {
					args = append(args, g.Expr(TStr, depth+1))
				}
				return Call{Local: "concat", Args: args}
			}
		case 2:
			if g.has("substring") {
				args := []Expr{g.Expr(TStr, depth+1), g.Expr(TNum, depth+1)}
				if r.Bool() {
					args = append(args, g.Expr(TNum, depth+1))
				}
				return Call{Local: "substring", Args: args}
			}
		case 3:
			if f := g.pickFn("substring-before", "substring-after"); f != "" {
				return Fn(f, g.Expr(TStr, depth+1), g.Expr(TStr, depth+1))
			}
		case 4:
			if f := g.pickFn("normalize-space"); f != "" {
				if r.P(25) {
					return Fn(f)
				}
				return Fn(f, g.Expr(TStr, depth+1))
			}
		case 5:
			if g.has("translate") {
				return Fn("translate", g.Expr(TStr, depth+1), g.strLit(), g.strLit())
			}
		case 6:
			if f := g.pickFn("name", "local-name", "namespace-uri"); f != "" {
				if r.P(30) {
					return Fn(f)
				}
				return Fn(f, g.Expr(TNodeSet, depth+1))
			}
		}
		return g.strLit()
	case TBool:
		if leaf {
			if r.Bool() {
				return Fn("true")
			}
			return Fn("false")
		}
		switch r.Intn(8) {
		case 0, 1, 2:
			return Binary{rng.Pick(r, []string{"=", "!=", "<", "<=", ">", ">="}), g.Expr(TAnyType, depth+1), g.Expr(TAnyType, depth+1)}
		case 3:
			return Binary{rng.Pick(r, []string{"and", "or"}), g.Expr(TBool, depth+1), g.Expr(TBool, depth+1)}
		case 4:
			if f := g.pickFn("not", "boolean"); f != "" {
				return Fn(f, g.Expr(TAnyType, depth+1))
			}
		case 5:
			if f := g.pickFn("contains", "starts-with"); f != "" {
				return Fn(f, g.Expr(TStr, depth+1), g.Expr(TStr, depth+1))
			}
		case 6:
			if g.has("lang") {
				return Fn("lang", g.strLit())
			}
		}
		return Fn("true")
	}
	return N(1)
}

// AllFuncs is the full builtin palette.
var AllFuncs = map[string]bool{"last": true, "position": true, "count": true, "local-name": true, "namespace-uri": true, "name": true, "string": true, "concat": true,
	"starts-with": true, "contains": true, "substring-before": true, "substring-after": true, "substring": true, "string-length": true, "normalize-space": true,
	"translate": true, "boolean": true, "not": true, "true": true, "false": true, "lang": true, "number": true, "sum": true, "floor": true, "ceiling": true, "round": true}
