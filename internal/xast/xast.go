// Package xast is the XPath 1.0 abstract syntax used by the generators, the
// reference evaluator and the reference recogniser.
package xast

import (
	"math"
	"strconv"
	"strings"
)

type Expr interface{ isExpr() }

type Binary struct {
	Op   string // or and = != < <= > >= + - * div mod |
	L, R Expr
}

type Neg struct{ X Expr }

type Num struct {
	V    float64
	Text string // spelling; derived from V when empty
}

type Lit struct{ S string }

type Var struct{ Prefix, Local string }

type Call struct {
	Prefix, Local string
	Args          []Expr
}

// Paren forces parentheses when rendered (semantically transparent).
type Paren struct{ X Expr }

// Path: optional filter head (primary expression with predicates) followed
// by steps; Abs means it starts at the root.
type Path struct {
	Abs   bool
	Head  Expr   // nil for a pure location path
	HPred []Expr // predicates on the head (filter expression)
	Steps []Step
}

type Step struct {
	Axis  string // one of the 13 axes
	Test  Test
	Preds []Expr
	Fn    *Call // function call used as a step (library extension); Axis/Test unused

	// Rendering choices (semantically neutral):
	Abbrev bool // child:: omitted, attribute:: as @, self::node() as ., parent::node() as ..
	DSlash bool // this step is descendant-or-self::node() rendered as '//' joining its neighbours
}

type TestKind int

const (
	TName     TestKind = iota // prefix:local or local
	TAny                      // *
	TNSAny                    // prefix:*
	TLocalAny                 // *:local
	TNode                     // node()
	TText                     // text()
	TComment                  // comment()
	TPI                       // processing-instruction()
	TPITarget                 // processing-instruction('t')
)

type Test struct {
	Kind          TestKind
	Prefix, Local string // TPITarget: Local is the target literal
}

func (Binary) isExpr() {}
func (Neg) isExpr()    {}
func (Num) isExpr()    {}
func (Lit) isExpr()    {}
func (Var) isExpr()    {}
func (Call) isExpr()   {}
func (Paren) isExpr()  {}
func (Path) isExpr()   {}

var ReverseAxes = map[string]bool{"ancestor": true, "ancestor-or-self": true, "preceding": true, "preceding-sibling": true}

var Axes = []string{"ancestor", "ancestor-or-self", "attribute", "child", "descendant", "descendant-or-self",
	"following", "following-sibling", "namespace", "parent", "preceding", "preceding-sibling", "self"}

func prec(op string) int {
	switch op {
	case "or":
		return 1
	case "and":
		return 2
	case "=", "!=":
		return 3
	case "<", "<=", ">", ">=":
		return 4
	case "+", "-":
		return 5
	case "*", "div", "mod":
		return 6
	case "|":
		return 8
	}
	return 0
}

// RenderOpts controls the concrete spelling.
type RenderOpts struct {
	FullParens bool                  // parenthesise every binary/unary sub-expression
	WS         func(slot int) string // optional whitespace at token boundaries (nil = minimal)
	// SlashStarRaw keeps '/*...' as written when it is an operand of an arithmetic operator. By
	// default such a path is spelled '/child::*...' there: the library's grammar is ambiguous for
	// '/' '*' (open finding grammar-slash-star of C08: '2 + /*/a' is read as 2 + (/) * (/a)), and
	// only C08 wants to meet that finding.
	SlashStarRaw bool
}

type renderer struct {
	o    RenderOpts
	sb   strings.Builder
	slot int
	last string // last token written
}

// tok writes one token. Mandatory separators: two adjacent name-like tokens
// need a space; a name followed by '-' needs one too ('-' is a name character);
// a number or '.' token adjacent to another number/'.' likewise.
func (r *renderer) tok(t string) {
	ws := ""
	if r.o.WS != nil {
		ws = r.o.WS(r.slot)
	}
	r.slot++
	if ws == "" && r.last != "" && needSep(r.last, t) {
		ws = " "
	}
	r.sb.WriteString(ws)
	r.sb.WriteString(t)
	r.last = t
}

// glue writes t directly after the previous token with no whitespace
// (inside QNames, after '$', between axis name parts we treat as one token).
func (r *renderer) glue(t string) {
	r.sb.WriteString(t)
	r.last = r.last + t
}

func isNameChar(c byte) bool {
	return c == '_' || c == '-' || c == '.' || c == '#' || c >= 0x80 || (c >= '0' && c <= '9') || (c >= 'a' && c <= 'z') || (c >= 'A' && c <= 'Z')
}

func needSep(a, b string) bool {
	ca, cb := a[len(a)-1], b[0]
	if isNameChar(ca) && isNameChar(cb) {
		return true
	}
	if ca == '/' && cb == '/' { // "/" "/" must not become "//"
		return true
	}
	if ca == '.' && cb == '.' {
		return true
	}
	if ca == '<' && cb == '=' || ca == '>' && cb == '=' || ca == '!' && cb == '=' {
		return true
	}
	if ca == ':' && cb == ':' {
		return true
	}
	return false
}

func Render(e Expr, o RenderOpts) string {
	r := &renderer{o: o}
	r.expr(e, 0)
	if o.WS != nil {
		r.sb.WriteString(o.WS(r.slot))
	}
	return r.sb.String()
}

func String(e Expr) string { return Render(e, RenderOpts{}) }

func NumText(n Num) string {
	if n.Text != "" {
		return n.Text
	}
	v := n.V
	if v < 0 || math.IsNaN(v) || math.IsInf(v, 0) {
		panic("Num literal must be finite and non-negative")
	}
	s := strconv.FormatFloat(v, 'f', -1, 64)
	return s
}

func (r *renderer) expr(e Expr, ctx int) {
	switch v := e.(type) {
	case Binary:
		p := prec(v.Op)
		open := p < ctx || (r.o.FullParens && ctx > 0)
		if open {
			r.tok("(")
		}
		// left-assoc: left child at same level, right child one higher.
		// '|' operands must be path/union expressions: anything else gets parens via level.
		l, rr := v.L, v.R
		if !r.o.SlashStarRaw && (v.Op == "+" || v.Op == "-" || v.Op == "*" || v.Op == "div" || v.Op == "mod") {
			l, rr = avoidSlashStar(l), avoidSlashStar(rr)
		}
		r.expr(l, p)
		r.tok(v.Op)
		r.expr(rr, p+1)
		if open {
			r.tok(")")
		}
	case Neg:
		// UnaryExpr binds tighter than multiplicative, looser than union.
		open := 7 < ctx || (r.o.FullParens && ctx > 0)
		if open {
			r.tok("(")
		}
		r.tok("-")
		x := v.X
		if !r.o.SlashStarRaw {
			x = avoidSlashStar(x)
		}
		r.expr(x, 7)
		if open {
			r.tok(")")
		}
	case Num:
		r.tok(NumText(v))
	case Lit:
		if !strings.Contains(v.S, "'") {
			r.tok("'" + v.S + "'")
		} else {
			r.tok("\"" + v.S + "\"")
		}
	case Var:
		if v.Prefix != "" {
			r.tok("$" + v.Prefix + ":" + v.Local)
		} else {
			r.tok("$" + v.Local)
		}
	case Call:
		r.call(&v)
	case Paren:
		r.tok("(")
		r.expr(v.X, 0)
		r.tok(")")
	case Path:
		r.path(&v, ctx)
	default:
		panic("xast: unknown expr")
	}
}

func (r *renderer) call(c *Call) {
	if c.Prefix != "" {
		r.tok(c.Prefix)
		r.glue(":")
		r.glue(c.Local)
	} else {
		r.tok(c.Local)
	}
	r.tok("(")
	for i, a := range c.Args {
		if i > 0 {
			r.tok(",")
		}
		r.expr(a, 0)
	}
	r.tok(")")
}

func isPrimary(e Expr) bool {
	switch e.(type) {
	case Num, Lit, Var, Call, Paren:
		return true
	}
	return false
}

func (r *renderer) path(p *Path, ctx int) {
	if p.Head != nil {
		if isPrimary(p.Head) {
			r.expr(p.Head, 9)
		} else {
			r.tok("(")
			r.expr(p.Head, 0)
			r.tok(")")
		}
		for _, q := range p.HPred {
			r.tok("[")
			r.expr(q, 0)
			r.tok("]")
		}
	}
	first := true
	needSlash := p.Head != nil
	if p.Abs {
		if len(p.Steps) == 0 {
			r.tok("/")
			return
		}
		if p.Steps[0].DSlash && len(p.Steps) > 1 {
			// leading '//'
		} else {
			r.tok("/")
		}
	}
	for i := 0; i < len(p.Steps); i++ {
		s := &p.Steps[i]
		if s.DSlash && i+1 < len(p.Steps) && (i > 0 || p.Abs || p.Head != nil) {
			r.tok("//")
			first = true
			needSlash = false
			continue
		}
		if !first || needSlash {
			r.tok("/")
		}
		first = false
		needSlash = false
		r.step(s)
	}
}

func (r *renderer) step(s *Step) {
	if s.Fn != nil {
		r.call(s.Fn)
		return
	}
	if s.Abbrev && len(s.Preds) == 0 && s.Test.Kind == TNode {
		if s.Axis == "self" {
			r.tok(".")
			return
		}
		if s.Axis == "parent" {
			r.tok("..")
			return
		}
	}
	switch {
	case s.Abbrev && s.Axis == "child":
	case s.Abbrev && s.Axis == "attribute":
		r.tok("@")
	default:
		r.tok(s.Axis)
		r.tok("::")
	}
	t := s.Test
	switch t.Kind {
	case TName:
		if t.Prefix != "" {
			r.tok(t.Prefix)
			r.glue(":")
			r.glue(t.Local)
		} else {
			r.tok(t.Local)
		}
	case TAny:
		r.tok("*")
	case TNSAny:
		r.tok(t.Prefix)
		r.glue(":*")
	case TLocalAny:
		r.tok("*")
		r.glue(":")
		r.glue(t.Local)
	case TNode:
		r.tok("node")
		r.tok("(")
		r.tok(")")
	case TText:
		r.tok("text")
		r.tok("(")
		r.tok(")")
	case TComment:
		r.tok("comment")
		r.tok("(")
		r.tok(")")
	case TPI:
		r.tok("processing-instruction")
		r.tok("(")
		r.tok(")")
	case TPITarget:
		r.tok("processing-instruction")
		r.tok("(")
		r.tok("'" + t.Local + "'")
		r.tok(")")
	}
	for _, q := range s.Preds {
		r.tok("[")
		r.expr(q, 0)
		r.tok("]")
	}
}

// UsesReverseAxis reports whether any step anywhere in e uses a reverse axis.
func UsesReverseAxis(e Expr) bool {
	found := false
	Walk(e, func(x Expr) {
		if p, ok := x.(Path); ok {
			for _, s := range p.Steps {
				if s.Fn == nil && ReverseAxes[s.Axis] {
					found = true
				}
			}
		}
	})
	return found
}

// Walk visits every sub-expression (pre-order).
func Walk(e Expr, f func(Expr)) {
	if e == nil {
		return
	}
	f(e)
	switch v := e.(type) {
	case Binary:
		Walk(v.L, f)
		Walk(v.R, f)
	case Neg:
		Walk(v.X, f)
	case Paren:
		Walk(v.X, f)
	case Call:
		for _, a := range v.Args {
			Walk(a, f)
		}
	case Path:
		Walk(v.Head, f)
		for _, q := range v.HPred {
			Walk(q, f)
		}
		for _, s := range v.Steps {
			for _, q := range s.Preds {
				Walk(q, f)
			}
			if s.Fn != nil {
				for _, a := range s.Fn.Args {
					Walk(a, f)
				}
			}
		}
	}
}

// Convenience constructors.

func Abs(steps ...Step) Path { return Path{Abs: true, Steps: steps} }
func Rel(steps ...Step) Path { return Path{Steps: steps} }

func S(axis string, t Test, preds ...Expr) Step {
	return Step{Axis: axis, Test: t, Preds: preds}
}

func NameT(prefix, local string) Test { return Test{Kind: TName, Prefix: prefix, Local: local} }
func NodeT() Test                     { return Test{Kind: TNode} }
func AnyT() Test                      { return Test{Kind: TAny} }

// DS is the '//' pseudo-step.
func DS() Step {
	return Step{Axis: "descendant-or-self", Test: NodeT(), DSlash: true}
}

func Fn(name string, args ...Expr) Call { return Call{Local: name, Args: args} }
func N(v float64) Num                   { return Num{V: v} }

// MapPrefixes returns a copy of e with every namespace prefix (name tests,
// variable references, function names) rewritten by f.
func MapPrefixes(e Expr, f func(string) string) Expr {
	mp := func(p string) string {
		if p == "" {
			return ""
		}
		return f(p)
	}
	var m func(Expr) Expr
	mcall := func(c Call) Call {
		out := Call{Prefix: mp(c.Prefix), Local: c.Local}
		for _, a := range c.Args {
			out.Args = append(out.Args, m(a))
		}
		return out
	}
	m = func(e Expr) Expr {
		switch v := e.(type) {
		case nil:
			return nil
		case Binary:
			return Binary{Op: v.Op, L: m(v.L), R: m(v.R)}
		case Neg:
			return Neg{X: m(v.X)}
		case Paren:
			return Paren{X: m(v.X)}
		case Var:
			return Var{Prefix: mp(v.Prefix), Local: v.Local}
		case Call:
			return mcall(v)
		case Path:
			out := Path{Abs: v.Abs}
			if v.Head != nil {
				out.Head = m(v.Head)
			}
			for _, q := range v.HPred {
				out.HPred = append(out.HPred, m(q))
			}
			for _, s := range v.Steps {
				ns := s
				ns.Test.Prefix = mp(s.Test.Prefix)
				ns.Preds = nil
				for _, q := range s.Preds {
					ns.Preds = append(ns.Preds, m(q))
				}
				if s.Fn != nil {
					c := mcall(*s.Fn)
					ns.Fn = &c
				}
				out.Steps = append(out.Steps, ns)
			}
			return out
		}
		return e
	}
	return m(e)
}

// UsesAxis reports whether any step uses the given axis.
func UsesAxis(e Expr, axis string) bool {
	found := false
	Walk(e, func(x Expr) {
		if p, ok := x.(Path); ok {
			for _, s := range p.Steps {
				if s.Fn == nil && s.Axis == axis {
					found = true
				}
			}
		}
	})
	return found
}

// avoidSlashStar spells the leading '/*' of an operand path as '/child::*' (see RenderOpts.SlashStarRaw).
func avoidSlashStar(e Expr) Expr {
	switch v := e.(type) {
	case Path:
		if v.Abs && v.Head == nil && len(v.Steps) > 0 {
			s0 := v.Steps[0]
			if !s0.DSlash && s0.Fn == nil && s0.Abbrev && s0.Axis == "child" && s0.Test.Kind == TAny {
				out := v
				out.Steps = append([]Step{}, v.Steps...)
				out.Steps[0].Abbrev = false
				return out
			}
		}
	case Binary:
		if v.Op == "|" {
			return Binary{Op: "|", L: avoidSlashStar(v.L), R: avoidSlashStar(v.R)}
		}
	case Neg:
		return Neg{X: avoidSlashStar(v.X)}
	}
	return e
}
