// Package refparse is the reference XPath 1.0 recogniser/parser: a hand-written
// lexer implementing the §3.7 disambiguation rules and a recursive-descent
// parser for the §3 grammar plus the library's documented extensions
// (function calls as path steps, the *:local name test, '#' in names).
package refparse

import (
	"fmt"
	"strconv"
	"strings"
	"unicode"
	"unicode/utf8"

	"xselverif/internal/xast"
)

// Quirks switch on grammar-level deviations recorded as known findings.
type Quirks struct {
	// KeywordOperators: and/or/div/mod are operators wherever they occur
	// (finding grammar-reserved-names), ignoring the §3.7 position rule.
	KeywordOperators bool
}

type tokKind int

const (
	tEOF tokKind = iota
	tLParen
	tRParen
	tLBrack
	tRBrack
	tDot
	tDotDot
	tAt
	tComma
	tColonColon
	tLiteral
	tNumber
	tOperator // text holds the operator
	tStar     // name test *
	tNSAny    // prefix:*
	tLocalAny // *:local
	tQName    // prefix:local or local (prefix may be empty)
	tNodeType // comment text processing-instruction node (followed by '(')
	tFuncName // QName followed by '('
	tAxisName // NCName followed by '::'
	tVariable // $qname
)

type token struct {
	kind          tokKind
	text          string
	prefix, local string
	num           float64
	pos           int
}

type Error struct {
	Pos int
	Msg string
}

func (e *Error) Error() string { return fmt.Sprintf("at %d: %s", e.Pos, e.Msg) }

func isSpace(c byte) bool { return c == ' ' || c == '\t' || c == '\r' || c == '\n' }

// NCName characters. XML 1.0 Letter/Digit/CombiningChar/Extender tables are
// approximated with unicode.IsLetter/IsDigit/Mn/Mc; generated inputs stay
// within ASCII letters, digits, '-', '.', '_', '#' and a few BMP letters.
func IsNameStart(r rune) bool {
	return r == '_' || r == '#' || unicode.IsLetter(r)
}

func IsNameChar(r rune) bool {
	return IsNameStart(r) || r == '-' || r == '.' || unicode.IsDigit(r) || unicode.Is(unicode.Mn, r) || unicode.Is(unicode.Mc, r) || r == 0xB7
}

var nodeTypes = map[string]bool{"comment": true, "text": true, "processing-instruction": true, "node": true}
var axisNames = map[string]bool{}

func init() {
	for _, a := range xast.Axes {
		axisNames[a] = true
	}
}

type lexer struct {
	s    string
	i    int
	toks []token
	q    Quirks
}

func (l *lexer) skipWS() {
	for l.i < len(l.s) && isSpace(l.s[l.i]) {
		l.i++
	}
}

func (l *lexer) ncname() string {
	start := l.i
	r, w := utf8.DecodeRuneInString(l.s[l.i:])
	if w == 0 || !IsNameStart(r) || (r == utf8.RuneError && w == 1) {
		return ""
	}
	l.i += w
	for l.i < len(l.s) {
		r, w = utf8.DecodeRuneInString(l.s[l.i:])
		if (r == utf8.RuneError && w == 1) || !IsNameChar(r) {
			break
		}
		l.i += w
	}
	return l.s[start:l.i]
}

// precedingAllowsOperand: false when the previous token forces the next
// '*' / NCName to be an operator (§3.7, first rule).
func (l *lexer) operatorPosition() bool {
	if len(l.toks) == 0 {
		return false
	}
	switch p := l.toks[len(l.toks)-1]; p.kind {
	case tAt, tColonColon, tLParen, tLBrack, tComma, tOperator:
		return false
	}
	return true
}

func (l *lexer) peekAfterWS(at int) string {
	j := at
	for j < len(l.s) && isSpace(l.s[j]) {
		j++
	}
	return l.s[j:]
}

func lex(s string, q Quirks) ([]token, error) {
	l := &lexer{s: s, q: q}
	for {
		l.skipWS()
		if l.i >= len(l.s) {
			l.toks = append(l.toks, token{kind: tEOF, pos: l.i})
			return l.toks, nil
		}
		start := l.i
		c := l.s[l.i]
		emit := func(k tokKind, text string) {
			l.toks = append(l.toks, token{kind: k, text: text, pos: start})
		}
		two := ""
		if l.i+1 < len(l.s) {
			two = l.s[l.i : l.i+2]
		}
		switch {
		case c == '(':
			l.i++
			emit(tLParen, "(")
		case c == ')':
			l.i++
			emit(tRParen, ")")
		case c == '[':
			l.i++
			emit(tLBrack, "[")
		case c == ']':
			l.i++
			emit(tRBrack, "]")
		case c == '@':
			l.i++
			emit(tAt, "@")
		case c == ',':
			l.i++
			emit(tComma, ",")
		case two == "::":
			l.i += 2
			emit(tColonColon, "::")
		case two == "//", two == "!=", two == "<=", two == ">=":
			l.i += 2
			emit(tOperator, two)
		case c == '/' || c == '|' || c == '+' || c == '-' || c == '=' || c == '<' || c == '>':
			l.i++
			emit(tOperator, string(c))
		case c == '"' || c == '\'':
			j := strings.IndexByte(l.s[l.i+1:], c)
			if j < 0 {
				return nil, &Error{start, "unterminated literal"}
			}
			lit := l.s[l.i+1 : l.i+1+j]
			l.i += j + 2
			l.toks = append(l.toks, token{kind: tLiteral, text: lit, pos: start})
		case c >= '0' && c <= '9' || (c == '.' && l.i+1 < len(l.s) && l.s[l.i+1] >= '0' && l.s[l.i+1] <= '9'):
			j := l.i
			for j < len(l.s) && l.s[j] >= '0' && l.s[j] <= '9' {
				j++
			}
			if j < len(l.s) && l.s[j] == '.' {
				j++
				for j < len(l.s) && l.s[j] >= '0' && l.s[j] <= '9' {
					j++
				}
			}
			text := l.s[l.i:j]
			l.i = j
			f, err := strconv.ParseFloat(text, 64)
			if err != nil {
				if ne, ok := err.(*strconv.NumError); !ok || ne.Err != strconv.ErrRange {
					return nil, &Error{start, "bad number"}
				}
			}
			l.toks = append(l.toks, token{kind: tNumber, text: text, num: f, pos: start})
		case two == "..":
			l.i += 2
			emit(tDotDot, "..")
		case c == '.':
			l.i++
			emit(tDot, ".")
		case c == '$':
			l.i++
			n1 := l.ncname()
			if n1 == "" {
				return nil, &Error{start, "bad variable reference"}
			}
			tk := token{kind: tVariable, local: n1, pos: start}
			if l.i < len(l.s) && l.s[l.i] == ':' && !(l.i+1 < len(l.s) && l.s[l.i+1] == ':') {
				save := l.i
				l.i++
				n2 := l.ncname()
				if n2 == "" {
					l.i = save
					return nil, &Error{start, "bad variable reference"}
				}
				tk.prefix, tk.local = n1, n2
			}
			l.toks = append(l.toks, tk)
		case c == '*':
			if l.operatorPosition() {
				l.i++
				emit(tOperator, "*")
				break
			}
			l.i++
			// extension: *:local
			if l.i < len(l.s) && l.s[l.i] == ':' && !(l.i+1 < len(l.s) && l.s[l.i+1] == ':') {
				save := l.i
				l.i++
				n := l.ncname()
				if n == "" {
					l.i = save
					return nil, &Error{save, "bad *:local name test"}
				}
				l.toks = append(l.toks, token{kind: tLocalAny, local: n, pos: start})
				break
			}
			emit(tStar, "*")
		default:
			n1 := l.ncname()
			if n1 == "" {
				return nil, &Error{start, fmt.Sprintf("unexpected character %q", l.s[start:start+1])}
			}
			if l.operatorPosition() {
				switch n1 {
				case "and", "or", "mod", "div":
					emit(tOperator, n1)
					continue
				}
				return nil, &Error{start, "operator name expected, got " + n1}
			}
			if l.q.KeywordOperators {
				switch n1 {
				case "and", "or", "mod", "div":
					emit(tOperator, n1)
					continue
				}
			}
			tk := token{kind: tQName, local: n1, pos: start}
			// QName / prefix:* (no whitespace around ':')
			if l.i < len(l.s) && l.s[l.i] == ':' && !(l.i+1 < len(l.s) && l.s[l.i+1] == ':') {
				save := l.i
				l.i++
				if l.i < len(l.s) && l.s[l.i] == '*' {
					l.i++
					l.toks = append(l.toks, token{kind: tNSAny, prefix: n1, pos: start})
					continue
				}
				n2 := l.ncname()
				if n2 == "" {
					l.i = save
					return nil, &Error{save, "bad QName"}
				}
				tk.prefix, tk.local = n1, n2
			}
			rest := l.peekAfterWS(l.i)
			switch {
			case strings.HasPrefix(rest, "("):
				if tk.prefix == "" && nodeTypes[tk.local] {
					tk.kind = tNodeType
				} else {
					tk.kind = tFuncName
				}
			case strings.HasPrefix(rest, "::"):
				if tk.prefix != "" || !axisNames[tk.local] {
					return nil, &Error{start, "unknown axis " + tk.local}
				}
				tk.kind = tAxisName
			}
			l.toks = append(l.toks, tk)
		}
	}
}

type parser struct {
	toks []token
	i    int
}

func (p *parser) peek() *token { return &p.toks[p.i] }
func (p *parser) next() *token { t := &p.toks[p.i]; p.i++; return t }
func (p *parser) isOp(op string) bool {
	t := p.peek()
	return t.kind == tOperator && t.text == op
}
func (p *parser) fail(msg string) error { return &Error{p.peek().pos, msg} }

// Parse classifies any string: (AST, nil) for an expression, (nil, error) otherwise.
func Parse(s string) (e xast.Expr, err error) { return ParseQ(s, Quirks{}) }

// ParseQ parses under the given finding quirks.
func ParseQ(s string, q Quirks) (e xast.Expr, err error) {
	if !utf8.ValidString(s) {
		return nil, &Error{0, "invalid UTF-8"}
	}
	toks, err := lex(s, q)
	if err != nil {
		return nil, err
	}
	p := &parser{toks: toks}
	e, err = p.orExpr(0)
	if err != nil {
		return nil, err
	}
	if p.peek().kind != tEOF {
		return nil, p.fail("trailing input")
	}
	return e, nil
}

const maxDepth = 5000

var binLevels = [][]string{{"or"}, {"and"}, {"=", "!="}, {"<", "<=", ">", ">="}, {"+", "-"}, {"*", "div", "mod"}}

func (p *parser) orExpr(depth int) (xast.Expr, error) { return p.binary(0, depth) }

func (p *parser) binary(level, depth int) (xast.Expr, error) {
	if depth > maxDepth {
		return nil, p.fail("too deep")
	}
	if level == len(binLevels) {
		return p.unary(depth)
	}
	l, err := p.binary(level+1, depth+1)
	if err != nil {
		return nil, err
	}
	for {
		matched := ""
		for _, op := range binLevels[level] {
			if p.isOp(op) {
				matched = op
			}
		}
		if matched == "" {
			return l, nil
		}
		p.next()
		r, err := p.binary(level+1, depth+1)
		if err != nil {
			return nil, err
		}
		l = xast.Binary{Op: matched, L: l, R: r}
	}
}

func (p *parser) unary(depth int) (xast.Expr, error) {
	n := 0
	for p.isOp("-") {
		p.next()
		n++
	}
	e, err := p.union(depth + 1)
	if err != nil {
		return nil, err
	}
	for ; n > 0; n-- {
		e = xast.Neg{X: e}
	}
	return e, nil
}

func (p *parser) union(depth int) (xast.Expr, error) {
	l, err := p.pathExpr(depth)
	if err != nil {
		return nil, err
	}
	for p.isOp("|") {
		p.next()
		r, err := p.pathExpr(depth)
		if err != nil {
			return nil, err
		}
		l = xast.Binary{Op: "|", L: l, R: r}
	}
	return l, nil
}

func (p *parser) startsPrimary() bool {
	switch p.peek().kind {
	case tVariable, tLParen, tLiteral, tNumber, tFuncName:
		return true
	}
	return false
}

func (p *parser) pathExpr(depth int) (xast.Expr, error) {
	if depth > maxDepth {
		return nil, p.fail("too deep")
	}
	if p.startsPrimary() {
		head, err := p.primary(depth)
		if err != nil {
			return nil, err
		}
		var preds []xast.Expr
		for p.peek().kind == tLBrack {
			q, err := p.predicate(depth)
			if err != nil {
				return nil, err
			}
			preds = append(preds, q)
		}
		if p.isOp("/") || p.isOp("//") {
			path := xast.Path{Head: head, HPred: preds}
			if p.next().text == "//" {
				path.Steps = append(path.Steps, xast.DS())
			}
			if err := p.relative(&path, depth); err != nil {
				return nil, err
			}
			return path, nil
		}
		if len(preds) > 0 {
			return xast.Path{Head: head, HPred: preds}, nil
		}
		return head, nil
	}
	path := xast.Path{}
	switch {
	case p.isOp("/"):
		p.next()
		path.Abs = true
		if !p.startsStep() {
			return path, nil
		}
	case p.isOp("//"):
		p.next()
		path.Abs = true
		path.Steps = append(path.Steps, xast.DS())
	}
	if err := p.relative(&path, depth); err != nil {
		return nil, err
	}
	return path, nil
}

func (p *parser) startsStep() bool {
	switch p.peek().kind {
	case tDot, tDotDot, tAt, tAxisName, tStar, tNSAny, tLocalAny, tQName, tNodeType, tFuncName:
		return true
	}
	return false
}

func (p *parser) relative(path *xast.Path, depth int) error {
	for {
		s, err := p.step(depth)
		if err != nil {
			return err
		}
		path.Steps = append(path.Steps, s)
		switch {
		case p.isOp("/"):
			p.next()
		case p.isOp("//"):
			p.next()
			path.Steps = append(path.Steps, xast.DS())
		default:
			return nil
		}
	}
}

func (p *parser) predicate(depth int) (xast.Expr, error) {
	p.next() // [
	e, err := p.orExpr(depth + 1)
	if err != nil {
		return nil, err
	}
	if p.peek().kind != tRBrack {
		return nil, p.fail("] expected")
	}
	p.next()
	return e, nil
}

func (p *parser) step(depth int) (xast.Step, error) {
	var s xast.Step
	switch t := p.peek(); t.kind {
	case tDot:
		p.next()
		return xast.Step{Axis: "self", Test: xast.NodeT(), Abbrev: true}, nil
	case tDotDot:
		p.next()
		return xast.Step{Axis: "parent", Test: xast.NodeT(), Abbrev: true}, nil
	case tFuncName:
		c, err := p.call(depth)
		if err != nil {
			return s, err
		}
		return xast.Step{Fn: &c}, nil
	case tAt:
		p.next()
		s.Axis, s.Abbrev = "attribute", true
	case tAxisName:
		p.next()
		s.Axis = t.local
		if p.peek().kind != tColonColon {
			return s, p.fail(":: expected")
		}
		p.next()
	default:
		s.Axis, s.Abbrev = "child", true
	}
	switch t := p.next(); t.kind {
	case tStar:
		s.Test = xast.Test{Kind: xast.TAny}
	case tNSAny:
		s.Test = xast.Test{Kind: xast.TNSAny, Prefix: t.prefix}
	case tLocalAny:
		s.Test = xast.Test{Kind: xast.TLocalAny, Local: t.local}
	case tQName:
		s.Test = xast.Test{Kind: xast.TName, Prefix: t.prefix, Local: t.local}
	case tNodeType:
		if p.peek().kind != tLParen {
			return s, p.fail("( expected")
		}
		p.next()
		switch t.local {
		case "node":
			s.Test.Kind = xast.TNode
		case "text":
			s.Test.Kind = xast.TText
		case "comment":
			s.Test.Kind = xast.TComment
		case "processing-instruction":
			s.Test.Kind = xast.TPI
			if p.peek().kind == tLiteral {
				s.Test.Kind = xast.TPITarget
				s.Test.Local = p.next().text
			}
		}
		if p.peek().kind != tRParen {
			return s, p.fail(") expected")
		}
		p.next()
	default:
		p.i--
		return s, p.fail("node test expected")
	}
	for p.peek().kind == tLBrack {
		q, err := p.predicate(depth)
		if err != nil {
			return s, err
		}
		s.Preds = append(s.Preds, q)
	}
	return s, nil
}

func (p *parser) call(depth int) (xast.Call, error) {
	t := p.next()
	c := xast.Call{Prefix: t.prefix, Local: t.local}
	if p.peek().kind != tLParen {
		return c, p.fail("( expected")
	}
	p.next()
	if p.peek().kind == tRParen {
		p.next()
		return c, nil
	}
	for {
		a, err := p.orExpr(depth + 1)
		if err != nil {
			return c, err
		}
		c.Args = append(c.Args, a)
		if p.peek().kind == tComma {
			p.next()
			continue
		}
		if p.peek().kind != tRParen {
			return c, p.fail(") expected")
		}
		p.next()
		return c, nil
	}
}

func (p *parser) primary(depth int) (xast.Expr, error) {
	switch t := p.peek(); t.kind {
	case tVariable:
		p.next()
		return xast.Var{Prefix: t.prefix, Local: t.local}, nil
	case tLParen:
		p.next()
		e, err := p.orExpr(depth + 1)
		if err != nil {
			return nil, err
		}
		if p.peek().kind != tRParen {
			return nil, p.fail(") expected")
		}
		p.next()
		return xast.Paren{X: e}, nil
	case tLiteral:
		p.next()
		return xast.Lit{S: t.text}, nil
	case tNumber:
		p.next()
		return xast.Num{V: t.num, Text: t.text}, nil
	case tFuncName:
		return p.call(depth)
	}
	return nil, p.fail("primary expression expected")
}
