// Package refeval is the reference XPath 1.0 evaluator over abstract
// documents: deliberately naive, written from the recommendation's text, and
// structurally unlike the library (per-context-node evaluation of every step).
package refeval

import (
	"math"
	"strconv"
	"strings"

	"xselverif/internal/adoc"
)

// Value is one of NodeSet, float64, string, bool.
type Value interface{}

// NodeSet is always duplicate-free and in document order.
type NodeSet []*adoc.Node

// Quirks switch on the behaviour of open known findings (DESIGN §6). All off
// means the strict model.
type Quirks struct {
	RoundNegTieAway bool // round(-k.5) = -(k+1) for k >= 1
}

func TypeName(v Value) string {
	switch v.(type) {
	case NodeSet:
		return "node-set"
	case float64:
		return "number"
	case string:
		return "string"
	case bool:
		return "boolean"
	}
	return "?"
}

func isXMLSpace(c byte) bool { return c == ' ' || c == '\t' || c == '\r' || c == '\n' }

// StringToNumber implements §4.4 number(): S? '-'? (Digits ('.' Digits?)? | '.' Digits) S?
func StringToNumber(s string) float64 {
	i, j := 0, len(s)
	for i < j && isXMLSpace(s[i]) {
		i++
	}
	for j > i && isXMLSpace(s[j-1]) {
		j--
	}
	t := s[i:j]
	if t == "" {
		return math.NaN()
	}
	k := 0
	if t[k] == '-' {
		k++
	}
	d1 := 0
	for k < len(t) && t[k] >= '0' && t[k] <= '9' {
		k++
		d1++
	}
	d2 := 0
	if k < len(t) && t[k] == '.' {
		k++
		for k < len(t) && t[k] >= '0' && t[k] <= '9' {
			k++
			d2++
		}
	}
	if k != len(t) || (d1 == 0 && d2 == 0) {
		return math.NaN()
	}
	f, err := strconv.ParseFloat(t, 64)
	if err != nil {
		// out of range: ParseFloat returns ±Inf with err; XPath rounds to nearest, i.e. infinity
		if ne, ok := err.(*strconv.NumError); ok && ne.Err == strconv.ErrRange {
			return f
		}
		return math.NaN()
	}
	return f
}

// NumberToString implements §4.2 string() for numbers.
func NumberToString(f float64) string {
	switch {
	case math.IsNaN(f):
		return "NaN"
	case math.IsInf(f, 1):
		return "Infinity"
	case math.IsInf(f, -1):
		return "-Infinity"
	case f == 0:
		return "0"
	}
	return strconv.FormatFloat(f, 'f', -1, 64)
}

// AcceptNumberString is the acceptance rule of DESIGN §3.4 for string(number):
// any spelling with the right lexical form that reads back to the same double.
func AcceptNumberString(f float64, s string) bool {
	switch {
	case math.IsNaN(f):
		return s == "NaN"
	case math.IsInf(f, 1):
		return s == "Infinity"
	case math.IsInf(f, -1):
		return s == "-Infinity"
	case f == 0:
		return s == "0"
	}
	t := s
	if strings.HasPrefix(t, "-") {
		t = t[1:]
	}
	if t == "" {
		return false
	}
	intPart, frac, hasDot := strings.Cut(t, ".")
	if intPart == "" || (hasDot && frac == "") {
		return false
	}
	for _, c := range intPart + frac {
		if c < '0' || c > '9' {
			return false
		}
	}
	if len(intPart) > 1 && intPart[0] == '0' {
		return false
	}
	if hasDot && strings.HasSuffix(frac, "0") {
		return false
	}
	if f == math.Trunc(f) && hasDot {
		return false
	}
	g, err := strconv.ParseFloat(s, 64)
	return err == nil && g == f
}

func ToString(v Value) string {
	switch x := v.(type) {
	case NodeSet:
		if len(x) == 0 {
			return ""
		}
		return x[0].StringValue()
	case float64:
		return NumberToString(x)
	case string:
		return x
	case bool:
		if x {
			return "true"
		}
		return "false"
	}
	panic("refeval: bad value")
}

func ToNumber(v Value) float64 {
	switch x := v.(type) {
	case NodeSet:
		return StringToNumber(ToString(x))
	case float64:
		return x
	case string:
		return StringToNumber(x)
	case bool:
		if x {
			return 1
		}
		return 0
	}
	panic("refeval: bad value")
}

func ToBool(v Value) bool {
	switch x := v.(type) {
	case NodeSet:
		return len(x) > 0
	case float64:
		return x != 0 && !math.IsNaN(x)
	case string:
		return len(x) > 0
	case bool:
		return x
	}
	panic("refeval: bad value")
}

// Round implements §4.4 round(): closest integer, ties toward +infinity.
func Round(x float64, q Quirks) float64 {
	if math.IsNaN(x) || math.IsInf(x, 0) || math.Abs(x) >= 1<<52 {
		return x
	}
	fl := math.Floor(x)
	if q.RoundNegTieAway && x < -0.5 && x-fl == 0.5 {
		return fl
	}
	if x-fl >= 0.5 {
		r := fl + 1
		if r == 0 && x < 0 {
			return math.Copysign(0, -1)
		}
		return r
	}
	return fl
}

// SameNumber: NaN-aware; the sign of zero is compared only when signZero.
func SameNumber(a, b float64, signZero bool) bool {
	if math.IsNaN(a) || math.IsNaN(b) {
		return math.IsNaN(a) && math.IsNaN(b)
	}
	if a != b {
		return false
	}
	if signZero && a == 0 {
		return math.Signbit(a) == math.Signbit(b)
	}
	return true
}
