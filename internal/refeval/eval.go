package refeval

import (
	"fmt"
	"math"
	"strings"
	"unicode/utf8"

	"xselverif/internal/adoc"
	"xselverif/internal/xast"
)

type Name struct{ Space, Local string }

// Func is a user function. ctxSet is non-nil only when the call is used as a
// path step (library extension: the function then sees the whole current
// node-set); c is the ordinary XPath context otherwise.
type Func func(c Ctx, ctxSet NodeSet, args []Value) (Value, error)

type Env struct {
	Doc    *adoc.Doc
	NS     map[string]string
	Vars   map[Name]Value
	Funcs  map[Name]Func
	Quirks Quirks
}

type Ctx struct {
	Node      *adoc.Node
	Pos, Size int
}

type EvalError struct{ Msg string }

func (e *EvalError) Error() string { return e.Msg }

func errf(format string, a ...any) error { return &EvalError{fmt.Sprintf(format, a...)} }

func (ev *Env) Eval(e xast.Expr, c Ctx) (Value, error) {
	switch v := e.(type) {
	case xast.Num:
		return v.V, nil
	case xast.Lit:
		return v.S, nil
	case xast.Paren:
		return ev.Eval(v.X, c)
	case xast.Var:
		n, err := ev.qname(v.Prefix, v.Local)
		if err != nil {
			return nil, err
		}
		val, ok := ev.Vars[n]
		if !ok {
			return nil, errf("unbound variable %v", n)
		}
		return val, nil
	case xast.Neg:
		x, err := ev.Eval(v.X, c)
		if err != nil {
			return nil, err
		}
		return -ToNumber(x), nil
	case xast.Binary:
		return ev.binary(v, c)
	case xast.Call:
		return ev.call(&v, c, nil)
	case xast.Path:
		return ev.path(&v, c)
	}
	return nil, errf("unknown expression")
}

func (ev *Env) qname(prefix, local string) (Name, error) {
	if prefix == "" {
		return Name{"", local}, nil
	}
	uri, ok := ev.NS[prefix]
	if !ok {
		return Name{}, errf("unbound prefix %q", prefix)
	}
	return Name{uri, local}, nil
}

func (ev *Env) binary(b xast.Binary, c Ctx) (Value, error) {
	l, err := ev.Eval(b.L, c)
	if err != nil {
		return nil, err
	}
	r, err := ev.Eval(b.R, c)
	if err != nil {
		return nil, err
	}
	switch b.Op {
	case "or":
		return ToBool(l) || ToBool(r), nil
	case "and":
		return ToBool(l) && ToBool(r), nil
	case "=", "!=", "<", "<=", ">", ">=":
		return Compare(b.Op, l, r), nil
	case "+":
		return ToNumber(l) + ToNumber(r), nil
	case "-":
		return ToNumber(l) - ToNumber(r), nil
	case "*":
		return ToNumber(l) * ToNumber(r), nil
	case "div":
		return ToNumber(l) / ToNumber(r), nil
	case "mod":
		return math.Mod(ToNumber(l), ToNumber(r)), nil
	case "|":
		ls, ok1 := l.(NodeSet)
		rs, ok2 := r.(NodeSet)
		if !ok1 || !ok2 {
			return nil, errf("union of non-node-sets")
		}
		return NodeSet(adoc.SortDoc(append(append([]*adoc.Node{}, ls...), rs...))), nil
	}
	return nil, errf("unknown operator %q", b.Op)
}

func cmpNum(op string, a, b float64) bool {
	switch op {
	case "=":
		return a == b
	case "!=":
		return a != b
	case "<":
		return a < b
	case "<=":
		return a <= b
	case ">":
		return a > b
	case ">=":
		return a >= b
	}
	panic("op")
}

func cmpAtoms(op string, l, r Value) bool {
	// neither is a node-set
	if op == "=" || op == "!=" {
		_, lb := l.(bool)
		_, rb := r.(bool)
		if lb || rb {
			eq := ToBool(l) == ToBool(r)
			return eq == (op == "=")
		}
		_, ln := l.(float64)
		_, rn := r.(float64)
		if ln || rn {
			return cmpNum(op, ToNumber(l), ToNumber(r))
		}
		eq := ToString(l) == ToString(r)
		return eq == (op == "=")
	}
	return cmpNum(op, ToNumber(l), ToNumber(r))
}

// Compare implements §3.4.
func Compare(op string, l, r Value) bool {
	ls, lok := l.(NodeSet)
	rs, rok := r.(NodeSet)
	switch {
	case lok && rok:
		for _, a := range ls {
			for _, b := range rs {
				if cmpAtoms(op, a.StringValue(), b.StringValue()) {
					return true
				}
			}
		}
		return false
	case lok:
		if rb, isb := r.(bool); isb {
			return cmpAtoms(op, len(ls) > 0, rb)
		}
		for _, a := range ls {
			switch x := r.(type) {
			case float64:
				if cmpNum(op, StringToNumber(a.StringValue()), x) {
					return true
				}
			case string:
				if cmpAtoms(op, a.StringValue(), x) {
					return true
				}
			}
		}
		return false
	case rok:
		if lb, isb := l.(bool); isb {
			return cmpAtoms(op, lb, len(rs) > 0)
		}
		for _, b := range rs {
			switch x := l.(type) {
			case float64:
				if cmpNum(op, x, StringToNumber(b.StringValue())) {
					return true
				}
			case string:
				if cmpAtoms(op, x, b.StringValue()) {
					return true
				}
			}
		}
		return false
	}
	return cmpAtoms(op, l, r)
}

// ---- paths ----

func isAncestorOf(a, n *adoc.Node) bool {
	for x := n.Parent; x != nil; x = x.Parent {
		if x == a {
			return true
		}
	}
	return false
}

func treeNode(n *adoc.Node) bool { return n.Kind != adoc.Attr && n.Kind != adoc.NS }

// Axis returns the axis sequence from n in axis direction (proximity order).
func (ev *Env) Axis(n *adoc.Node, axis string) []*adoc.Node {
	var out []*adoc.Node
	switch axis {
	case "self":
		out = append(out, n)
	case "child":
		out = append(out, n.Children...)
	case "attribute":
		out = append(out, n.Attrs...)
	case "namespace":
		out = append(out, n.NSNodes...)
	case "parent":
		if n.Parent != nil {
			out = append(out, n.Parent)
		}
	case "ancestor", "ancestor-or-self":
		if axis == "ancestor-or-self" {
			out = append(out, n)
		}
		for x := n.Parent; x != nil; x = x.Parent {
			out = append(out, x)
		}
	case "descendant", "descendant-or-self":
		if axis == "descendant-or-self" {
			out = append(out, n)
		}
		var walk func(x *adoc.Node)
		walk = func(x *adoc.Node) {
			for _, c := range x.Children {
				out = append(out, c)
				walk(c)
			}
		}
		walk(n)
	case "following-sibling":
		if treeNode(n) && n.Parent != nil {
			seen := false
			for _, s := range n.Parent.Children {
				if seen {
					out = append(out, s)
				}
				if s == n {
					seen = true
				}
			}
		}
	case "preceding-sibling":
		if treeNode(n) && n.Parent != nil {
			var before []*adoc.Node
			for _, s := range n.Parent.Children {
				if s == n {
					break
				}
				before = append(before, s)
			}
			for i := len(before) - 1; i >= 0; i-- {
				out = append(out, before[i])
			}
		}
	case "following":
		for _, m := range ev.Doc.All {
			if treeNode(m) && m.Ord > n.Ord && !isAncestorOf(n, m) {
				out = append(out, m)
			}
		}
	case "preceding":
		for i := len(ev.Doc.All) - 1; i >= 0; i-- {
			m := ev.Doc.All[i]
			if treeNode(m) && m.Ord < n.Ord && !isAncestorOf(m, n) {
				out = append(out, m)
			}
		}
	default:
		panic("unknown axis " + axis)
	}
	return out
}

func principal(axis string) adoc.Kind {
	switch axis {
	case "attribute":
		return adoc.Attr
	case "namespace":
		return adoc.NS
	}
	return adoc.Elem
}

func (ev *Env) test(n *adoc.Node, axis string, t xast.Test) (bool, error) {
	pk := principal(axis)
	switch t.Kind {
	case xast.TNode:
		return true, nil
	case xast.TText:
		return n.Kind == adoc.Text, nil
	case xast.TComment:
		return n.Kind == adoc.Comment, nil
	case xast.TPI:
		return n.Kind == adoc.PI, nil
	case xast.TPITarget:
		return n.Kind == adoc.PI && n.Local == t.Local, nil
	case xast.TAny:
		return n.Kind == pk, nil
	case xast.TLocalAny:
		return n.Kind == pk && n.Local == t.Local, nil
	case xast.TNSAny:
		uri, ok := ev.NS[t.Prefix]
		if !ok {
			return false, errf("unbound prefix %q", t.Prefix)
		}
		return n.Kind == pk && pk != adoc.NS && n.Space == uri, nil
	case xast.TName:
		uri := ""
		if t.Prefix != "" {
			u, ok := ev.NS[t.Prefix]
			if !ok {
				return false, errf("unbound prefix %q", t.Prefix)
			}
			uri = u
		}
		if n.Kind != pk {
			return false, nil
		}
		if pk == adoc.NS {
			return uri == "" && n.Local == t.Local, nil
		}
		return n.Space == uri && n.Local == t.Local, nil
	}
	return false, errf("bad node test")
}

// filter applies one predicate to a candidate sequence given in the order
// that defines proximity position.
func (ev *Env) filter(cands []*adoc.Node, pred xast.Expr) ([]*adoc.Node, error) {
	var out []*adoc.Node
	for i, n := range cands {
		v, err := ev.Eval(pred, Ctx{Node: n, Pos: i + 1, Size: len(cands)})
		if err != nil {
			return nil, err
		}
		keep := false
		if f, ok := v.(float64); ok {
			keep = f == float64(i+1)
		} else {
			keep = ToBool(v)
		}
		if keep {
			out = append(out, n)
		}
	}
	return out, nil
}

// StepFrom evaluates one ordinary step from one context node; result in axis order.
func (ev *Env) StepFrom(n *adoc.Node, s *xast.Step) ([]*adoc.Node, error) {
	var cands []*adoc.Node
	for _, m := range ev.Axis(n, s.Axis) {
		ok, err := ev.test(m, s.Axis, s.Test)
		if err != nil {
			return nil, err
		}
		if ok {
			cands = append(cands, m)
		}
	}
	// an unbound prefix is an error even when the axis is empty
	if len(cands) == 0 {
		if _, err := ev.test(ev.Doc.Root, s.Axis, s.Test); err != nil {
			return nil, err
		}
	}
	for _, p := range s.Preds {
		var err error
		cands, err = ev.filter(cands, p)
		if err != nil {
			return nil, err
		}
	}
	return cands, nil
}

func (ev *Env) path(p *xast.Path, c Ctx) (Value, error) {
	var cur NodeSet
	switch {
	case p.Head != nil:
		hv, err := ev.Eval(p.Head, c)
		if err != nil {
			return nil, err
		}
		if len(p.HPred) == 0 && len(p.Steps) == 0 {
			return hv, nil
		}
		hs, ok := hv.(NodeSet)
		if !ok {
			return nil, errf("filter/path on %s", TypeName(hv))
		}
		cur = hs
		for _, q := range p.HPred {
			f, err := ev.filter(cur, q) // document order
			if err != nil {
				return nil, err
			}
			cur = f
		}
	case p.Abs:
		cur = NodeSet{ev.Doc.Root}
	default:
		cur = NodeSet{c.Node}
	}
	for i := range p.Steps {
		s := &p.Steps[i]
		if s.Fn != nil {
			if cur == nil {
				cur = NodeSet{} // an empty context set is still "a path step context"
			}
			v, err := ev.call(s.Fn, c, cur)
			if err != nil {
				return nil, err
			}
			if i == len(p.Steps)-1 {
				return v, nil
			}
			ns, ok := v.(NodeSet)
			if !ok {
				return nil, errf("step after %s", TypeName(v))
			}
			cur = ns
			continue
		}
		var acc []*adoc.Node
		for _, n := range cur {
			r, err := ev.StepFrom(n, s)
			if err != nil {
				return nil, err
			}
			acc = append(acc, r...)
		}
		if len(cur) == 0 {
			// still surface unbound prefixes in later steps / predicates? The
			// library evaluates name tests on empty sets too; predicates are not
			// evaluated. Mirror the name-test part only.
			if _, err := ev.test(ev.Doc.Root, s.Axis, s.Test); err != nil {
				return nil, err
			}
		}
		cur = adoc.SortDoc(acc)
	}
	return cur, nil
}

// ---- functions ----

func runes(s string) []rune { return []rune(s) }

func (ev *Env) call(f *xast.Call, c Ctx, ctxSet NodeSet) (Value, error) {
	name, err := ev.qname(f.Prefix, f.Local)
	if err != nil {
		return nil, err
	}
	args := make([]Value, len(f.Args))
	for i, a := range f.Args {
		v, err := ev.Eval(a, c)
		if err != nil {
			return nil, err
		}
		args[i] = v
	}
	if uf, ok := ev.Funcs[name]; ok {
		return uf(c, ctxSet, args)
	}
	if name.Space != "" {
		return nil, errf("unknown function %v", name)
	}
	// context as a value for zero-argument forms: the context node, or the
	// whole current node-set when the call is a path step (P/f() = f(P)).
	var ctxVal Value = NodeSet{c.Node}
	if ctxSet != nil {
		ctxVal = ctxSet
	}
	argN := func(n ...int) error {
		for _, k := range n {
			if len(args) == k {
				return nil
			}
		}
		return errf("%s: wrong number of arguments (%d)", name.Local, len(args))
	}
	opt := func() Value { // optional single argument defaulting to the context
		if len(args) == 0 {
			return ctxVal
		}
		return args[0]
	}
	nodeArg := func() (NodeSet, error) {
		v := opt()
		ns, ok := v.(NodeSet)
		if !ok {
			return nil, errf("%s: argument is %s, not node-set", name.Local, TypeName(v))
		}
		return ns, nil
	}
	switch name.Local {
	case "last":
		if err := argN(0); err != nil {
			return nil, err
		}
		return float64(c.Size), nil
	case "position":
		if err := argN(0); err != nil {
			return nil, err
		}
		return float64(c.Pos), nil
	case "count":
		if err := argN(1); err != nil {
			return nil, err
		}
		ns, ok := args[0].(NodeSet)
		if !ok {
			return nil, errf("count: not a node-set")
		}
		return float64(len(ns)), nil
	case "local-name", "namespace-uri", "name":
		if err := argN(0, 1); err != nil {
			return nil, err
		}
		ns, err := nodeArg()
		if err != nil {
			return nil, err
		}
		if len(ns) == 0 {
			return "", nil
		}
		n := ns[0]
		local, uri := "", ""
		switch n.Kind {
		case adoc.Elem, adoc.Attr:
			local, uri = n.Local, n.Space
		case adoc.PI, adoc.NS:
			local = n.Local
		}
		switch name.Local {
		case "local-name":
			return local, nil
		case "namespace-uri":
			return uri, nil
		}
		if uri == "" {
			return local, nil
		}
		return "{" + uri + "}" + local, nil
	case "string":
		if err := argN(0, 1); err != nil {
			return nil, err
		}
		return ToString(opt()), nil
	case "concat":
		if len(args) < 2 {
			return nil, errf("concat: needs two or more arguments")
		}
		var sb strings.Builder
		for _, a := range args {
			sb.WriteString(ToString(a))
		}
		return sb.String(), nil
	case "starts-with":
		if err := argN(2); err != nil {
			return nil, err
		}
		return strings.HasPrefix(ToString(args[0]), ToString(args[1])), nil
	case "contains":
		if err := argN(2); err != nil {
			return nil, err
		}
		return strings.Contains(ToString(args[0]), ToString(args[1])), nil
	case "substring-before", "substring-after":
		if err := argN(2); err != nil {
			return nil, err
		}
		s, t := ToString(args[0]), ToString(args[1])
		i := strings.Index(s, t)
		if i < 0 {
			return "", nil
		}
		if name.Local == "substring-before" {
			return s[:i], nil
		}
		return s[i+len(t):], nil
	case "substring":
		if err := argN(2, 3); err != nil {
			return nil, err
		}
		rs := runes(ToString(args[0]))
		p := Round(ToNumber(args[1]), ev.Quirks)
		var sb strings.Builder
		if len(args) == 2 {
			for i, r := range rs {
				if float64(i+1) >= p {
					sb.WriteRune(r)
				}
			}
		} else {
			l := Round(ToNumber(args[2]), ev.Quirks)
			end := p + l
			for i, r := range rs {
				q := float64(i + 1)
				if q >= p && q < end {
					sb.WriteRune(r)
				}
			}
		}
		return sb.String(), nil
	case "string-length":
		if err := argN(0, 1); err != nil {
			return nil, err
		}
		return float64(utf8.RuneCountInString(ToString(opt()))), nil
	case "normalize-space":
		if err := argN(0, 1); err != nil {
			return nil, err
		}
		s := ToString(opt())
		var words []string
		cur := ""
		for i := 0; i < len(s); i++ {
			if isXMLSpace(s[i]) {
				if cur != "" {
					words = append(words, cur)
					cur = ""
				}
			} else {
				cur += s[i : i+1]
			}
		}
		if cur != "" {
			words = append(words, cur)
		}
		return strings.Join(words, " "), nil
	case "translate":
		if err := argN(3); err != nil {
			return nil, err
		}
		src, from, to := runes(ToString(args[0])), runes(ToString(args[1])), runes(ToString(args[2]))
		var sb strings.Builder
		for _, r := range src {
			idx := -1
			for i, f := range from {
				if f == r {
					idx = i
					break
				}
			}
			switch {
			case idx < 0:
				sb.WriteRune(r)
			case idx < len(to):
				sb.WriteRune(to[idx])
			}
		}
		return sb.String(), nil
	case "boolean":
		if err := argN(1); err != nil {
			return nil, err
		}
		return ToBool(args[0]), nil
	case "not":
		if err := argN(1); err != nil {
			return nil, err
		}
		return !ToBool(args[0]), nil
	case "true":
		if err := argN(0); err != nil {
			return nil, err
		}
		return true, nil
	case "false":
		if err := argN(0); err != nil {
			return nil, err
		}
		return false, nil
	case "lang":
		if err := argN(1); err != nil {
			return nil, err
		}
		return Lang(c.Node, ToString(args[0])), nil
	case "number":
		if err := argN(0, 1); err != nil {
			return nil, err
		}
		return ToNumber(opt()), nil
	case "sum":
		if err := argN(1); err != nil {
			return nil, err
		}
		ns, ok := args[0].(NodeSet)
		if !ok {
			return nil, errf("sum: not a node-set")
		}
		total := 0.0
		for _, n := range ns {
			total += StringToNumber(n.StringValue())
		}
		return total, nil
	case "floor":
		if err := argN(1); err != nil {
			return nil, err
		}
		return math.Floor(ToNumber(args[0])), nil
	case "ceiling":
		if err := argN(1); err != nil {
			return nil, err
		}
		return math.Ceil(ToNumber(args[0])), nil
	case "round":
		if err := argN(1); err != nil {
			return nil, err
		}
		return Round(ToNumber(args[0]), ev.Quirks), nil
	}
	return nil, errf("unknown function %v", name)
}

func asciiLower(s string) string {
	b := []byte(s)
	for i, c := range b {
		if c >= 'A' && c <= 'Z' {
			b[i] = c + 32
		}
	}
	return string(b)
}

// Lang implements §4.3 lang().
func Lang(n *adoc.Node, l string) bool {
	e := n
	if e.Kind != adoc.Elem {
		e = e.Parent
	}
	for ; e != nil && e.Kind == adoc.Elem; e = e.Parent {
		for _, a := range e.Attrs {
			if a.Space == adoc.XMLNS && a.Local == "lang" {
				v, want := asciiLower(a.Value), asciiLower(l)
				return v == want || strings.HasPrefix(v, want+"-")
			}
		}
	}
	return false
}
