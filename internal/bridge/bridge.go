// Package bridge connects library cursor trees with abstract documents:
// a parallel walk yields cursor<->adoc node maps (by identity), and library
// results are converted into model values.
package bridge

import (
	"fmt"
	"math"

	"github.com/ChrisTrenkamp/xsel"
	"github.com/ChrisTrenkamp/xsel/node"
	"github.com/ChrisTrenkamp/xsel/store"

	"xselverif/internal/adoc"
	"xselverif/internal/refeval"
)

type Map struct {
	Doc   *adoc.Doc
	Root  store.Cursor
	ToA   map[store.Cursor]*adoc.Node
	ToC   map[*adoc.Node]store.Cursor
	Order []store.Cursor // all cursors in adoc document order
}

// KindOf classifies a cursor's node value; attribute before element because an
// attribute value also satisfies node.Element.
func KindOf(c store.Cursor) adoc.Kind {
	switch c.Node().(type) {
	case node.Namespace:
		return adoc.NS
	case node.Attribute:
		return adoc.Attr
	case node.CharData:
		return adoc.Text
	case node.Comment:
		return adoc.Comment
	case node.ProcInst:
		return adoc.PI
	case node.Element:
		return adoc.Elem
	}
	return adoc.Root
}

// Describe renders a cursor's own facts (for mismatch messages).
func Describe(c store.Cursor) string {
	switch v := c.Node().(type) {
	case node.Namespace:
		return fmt.Sprintf("ns(%q=%q)", v.Prefix(), v.NamespaceValue())
	case node.Attribute:
		return fmt.Sprintf("attr({%s}%s=%q)", v.Space(), v.Local(), v.AttributeValue())
	case node.CharData:
		return fmt.Sprintf("text(%q)", v.CharDataValue())
	case node.Comment:
		return fmt.Sprintf("comment(%q)", v.CommentValue())
	case node.ProcInst:
		return fmt.Sprintf("pi(%s %q)", v.Target(), v.ProcInstValue())
	case node.Element:
		return fmt.Sprintf("elem({%s}%s)", v.Space(), v.Local())
	}
	return "root"
}

func same(c store.Cursor, a *adoc.Node) bool {
	if KindOf(c) != a.Kind {
		return false
	}
	switch v := c.Node().(type) {
	case node.Namespace:
		return v.Prefix() == a.Local && v.NamespaceValue() == a.Value
	case node.Attribute:
		return v.Space() == a.Space && v.Local() == a.Local && v.AttributeValue() == a.Value
	case node.CharData:
		return v.CharDataValue() == a.Value
	case node.Comment:
		return v.CommentValue() == a.Value
	case node.ProcInst:
		return v.Target() == a.Local && v.ProcInstValue() == a.Value
	case node.Element:
		return v.Space() == a.Space && v.Local() == a.Local
	}
	return true
}

// Build walks the cursor tree against the document. Namespace nodes are
// matched by prefix and the document's per-element namespace order is then
// taken from the cursor tree (XPath leaves it implementation-dependent);
// attributes and children are matched by index. Any structural mismatch is
// reported as an error with the path of the first difference.
func Build(root store.Cursor, d *adoc.Doc) (*Map, error) {
	m := &Map{Doc: d, Root: root, ToA: map[store.Cursor]*adoc.Node{}, ToC: map[*adoc.Node]store.Cursor{}}
	var walk func(c store.Cursor, a *adoc.Node) error
	bind := func(c store.Cursor, a *adoc.Node) error {
		if !same(c, a) {
			return fmt.Errorf("at %s: library has %s, document has %s", a.Path(), Describe(c), a.Kind)
		}
		if _, dup := m.ToA[c]; dup {
			return fmt.Errorf("at %s: cursor %s is reachable twice (shared between parents)", a.Path(), Describe(c))
		}
		m.ToA[c] = a
		m.ToC[a] = c
		return nil
	}
	walk = func(c store.Cursor, a *adoc.Node) error {
		if err := bind(c, a); err != nil {
			return err
		}
		nss := c.Namespaces()
		if len(nss) != len(a.NSNodes) {
			return fmt.Errorf("at %s: %d namespace nodes, document has %d", a.Path(), len(nss), len(a.NSNodes))
		}
		reordered := make([]*adoc.Node, 0, len(nss))
		for _, nc := range nss {
			nsv, ok := nc.Node().(node.Namespace)
			if !ok {
				return fmt.Errorf("at %s: Namespaces() holds %s", a.Path(), Describe(nc))
			}
			var hit *adoc.Node
			for _, an := range a.NSNodes {
				if an.Local == nsv.Prefix() {
					hit = an
				}
			}
			if hit == nil {
				return fmt.Errorf("at %s: unexpected namespace node %s", a.Path(), Describe(nc))
			}
			if err := bind(nc, hit); err != nil {
				return err
			}
			reordered = append(reordered, hit)
		}
		a.NSNodes = reordered
		as := c.Attributes()
		if len(as) != len(a.Attrs) {
			return fmt.Errorf("at %s: %d attributes, document has %d", a.Path(), len(as), len(a.Attrs))
		}
		for i, ac := range as {
			if err := bind(ac, a.Attrs[i]); err != nil {
				return err
			}
		}
		cs := c.Children()
		if len(cs) != len(a.Children) {
			return fmt.Errorf("at %s: %d children, document has %d", a.Path(), len(cs), len(a.Children))
		}
		for i, cc := range cs {
			if err := walk(cc, a.Children[i]); err != nil {
				return err
			}
		}
		return nil
	}
	if err := walk(root, d.Root); err != nil {
		return nil, err
	}
	d.Index()
	m.Order = make([]store.Cursor, len(d.All))
	for i, a := range d.All {
		m.Order[i] = m.ToC[a]
	}
	return m, nil
}

// FromStore builds the R-store realisation: adoc -> scripted parser events ->
// store.CreateInMemory, then maps it.
func FromStore(d *adoc.Doc) (*Map, error) {
	root, err := store.CreateInMemory(d.Parser())
	if err != nil {
		return nil, fmt.Errorf("CreateInMemory: %v", err)
	}
	return Build(root, d)
}

// Value converts a library result into a model value. Node-sets keep the
// library's order (callers sort when only the set matters).
func (m *Map) Nodes(ns xsel.NodeSet) ([]*adoc.Node, error) {
	out := make([]*adoc.Node, len(ns))
	for i, c := range ns {
		a, ok := m.ToA[Canon(c)]
		if !ok {
			return nil, fmt.Errorf("result node %d (%s, pos %d) is not a node of the queried document", i, Describe(c), c.Pos())
		}
		out[i] = a
	}
	return out, nil
}

func (m *Map) Value(r xsel.Result) (refeval.Value, error) {
	switch v := r.(type) {
	case xsel.NodeSet:
		ns, err := m.Nodes(v)
		if err != nil {
			return nil, err
		}
		return refeval.NodeSet(adoc.SortDoc(ns)), nil
	case xsel.Number:
		return float64(v), nil
	case xsel.String:
		return string(v), nil
	case xsel.Bool:
		return bool(v), nil
	case nil:
		return nil, fmt.Errorf("nil result")
	}
	return nil, fmt.Errorf("unknown result type %T", r)
}

// Lib converts a model value into a library Result (for variable bindings).
func (m *Map) Lib(v refeval.Value) xsel.Result {
	switch x := v.(type) {
	case refeval.NodeSet:
		out := make(xsel.NodeSet, len(x))
		for i, a := range x {
			out[i] = m.ToC[a]
		}
		return out
	case float64:
		return xsel.Number(x)
	case string:
		return xsel.String(x)
	case bool:
		return xsel.Bool(x)
	}
	panic("bridge: bad value")
}

// Equal compares model values: node-sets as sets (both are sorted), numbers
// NaN-aware (sign of zero per signZero).
func Equal(a, b refeval.Value, signZero bool) bool {
	switch x := a.(type) {
	case refeval.NodeSet:
		y, ok := b.(refeval.NodeSet)
		if !ok || len(x) != len(y) {
			return false
		}
		for i := range x {
			if x[i] != y[i] {
				return false
			}
		}
		return true
	case float64:
		y, ok := b.(float64)
		return ok && refeval.SameNumber(x, y, signZero)
	case string:
		y, ok := b.(string)
		return ok && x == y
	case bool:
		y, ok := b.(bool)
		return ok && x == y
	}
	return false
}

// Show renders a value for witnesses.
func Show(v refeval.Value) string {
	switch x := v.(type) {
	case refeval.NodeSet:
		s := "{"
		for i, n := range x {
			if i > 0 {
				s += ", "
			}
			if i >= 12 {
				s += fmt.Sprintf("… %d more", len(x)-i)
				break
			}
			s += n.Path()
		}
		return s + "}"
	case float64:
		if x == 0 && math.Signbit(x) {
			return "number(-0)"
		}
		return "number(" + refeval.NumberToString(x) + ")"
	case string:
		return fmt.Sprintf("string(%q)", x)
	case bool:
		return fmt.Sprintf("boolean(%v)", x)
	case nil:
		return "<nil>"
	}
	return fmt.Sprintf("%v", v)
}

// ---- R-ref: an independent store.Cursor implementation ----

// RefCursor satisfies the documented Cursor contract by construction:
// positions are unique and ordered but not contiguous, every call returns fresh
// slices, node values implement exactly one node interface. It follows the one
// convention the contract leaves unstated and the evaluator relies on: Parent()
// of the root returns the root (a nil parent makes lang() from the root node
// fail; whether that is required of a user-supplied store is not specified, so
// no verdict depends on it). Running the evaluator on
// it (instead of store.InMemory) separates evaluator behaviour from store
// behaviour and exercises the evaluator against a user-supplied store.
type RefCursor struct {
	pos      int
	node     node.Node
	parent   *RefCursor
	ns       []*RefCursor
	attrs    []*RefCursor
	children []*RefCursor
}

type refRoot struct{}

func (c *RefCursor) Pos() int        { return c.pos }
func (c *RefCursor) Node() node.Node { return c.node }
func (c *RefCursor) Parent() store.Cursor {
	if c.parent == nil {
		return c
	}
	return c.parent
}
func conv(in []*RefCursor) []store.Cursor {
	out := make([]store.Cursor, len(in))
	for i, x := range in {
		out[i] = x
	}
	return out
}
func (c *RefCursor) Namespaces() []store.Cursor { return conv(c.ns) }
func (c *RefCursor) Attributes() []store.Cursor { return conv(c.attrs) }
func (c *RefCursor) Children() []store.Cursor   { return conv(c.children) }

// FromRef builds the R-ref realisation of a finished document.
func FromRef(d *adoc.Doc) (*Map, error) {
	var mk func(a *adoc.Node, parent *RefCursor) *RefCursor
	mk = func(a *adoc.Node, parent *RefCursor) *RefCursor {
		c := &RefCursor{pos: a.Ord * 7, parent: parent}
		switch a.Kind {
		case adoc.Root:
			c.node = refRoot{}
		case adoc.Elem:
			c.node = adoc.EElem{S: a.Space, L: a.Local}
		case adoc.Attr:
			c.node = adoc.EAttr{S: a.Space, L: a.Local, V: a.Value}
		case adoc.NS:
			c.node = adoc.ENS{P: a.Local, V: a.Value}
		case adoc.Text:
			c.node = adoc.EText{V: a.Value}
		case adoc.Comment:
			c.node = adoc.EComment{V: a.Value}
		case adoc.PI:
			c.node = adoc.EPI{T: a.Local, V: a.Value}
		}
		for _, x := range a.NSNodes {
			c.ns = append(c.ns, mk(x, c))
		}
		for _, x := range a.Attrs {
			c.attrs = append(c.attrs, mk(x, c))
		}
		for _, x := range a.Children {
			c.children = append(c.children, mk(x, c))
		}
		return c
	}
	d.Index()
	root := mk(d.Root, nil)
	// identity map: RefCursor lists are rebuilt on every call, so map by walking the pointers directly
	m := &Map{Doc: d, Root: root, ToA: map[store.Cursor]*adoc.Node{}, ToC: map[*adoc.Node]store.Cursor{}}
	var walk func(c *RefCursor, a *adoc.Node)
	walk = func(c *RefCursor, a *adoc.Node) {
		m.ToA[c] = a
		m.ToC[a] = c
		for i, x := range c.ns {
			walk(x, a.NSNodes[i])
		}
		for i, x := range c.attrs {
			walk(x, a.Attrs[i])
		}
		for i, x := range c.children {
			walk(x, a.Children[i])
		}
	}
	walk(root, d.Root)
	m.Order = make([]store.Cursor, len(d.All))
	for i, a := range d.All {
		m.Order[i] = m.ToC[a]
	}
	return m, nil
}

// LazyCursor is a view of a RefCursor tree that allocates a fresh cursor
// value every time a node is reached (as a store backed by a database or a
// memory-mapped file would): node identity is Pos(), never the Go value.
type LazyCursor struct{ c *RefCursor }

// LazyOf wraps a canonical R-ref cursor; other cursors are returned unchanged.
func LazyOf(c store.Cursor) store.Cursor {
	if rc, ok := c.(*RefCursor); ok {
		return &LazyCursor{rc}
	}
	return c
}

// Canon returns the canonical cursor behind a lazy view (or c itself).
func Canon(c store.Cursor) store.Cursor {
	if lc, ok := c.(*LazyCursor); ok {
		return lc.c
	}
	return c
}

func lazyList(in []*RefCursor) []store.Cursor {
	out := make([]store.Cursor, len(in))
	for i, x := range in {
		out[i] = &LazyCursor{x}
	}
	return out
}

func (l *LazyCursor) Pos() int        { return l.c.pos }
func (l *LazyCursor) Node() node.Node { return l.c.node }
func (l *LazyCursor) Parent() store.Cursor {
	if l.c.parent == nil {
		return &LazyCursor{l.c}
	}
	return &LazyCursor{l.c.parent}
}
func (l *LazyCursor) Namespaces() []store.Cursor { return lazyList(l.c.ns) }
func (l *LazyCursor) Attributes() []store.Cursor { return lazyList(l.c.attrs) }
func (l *LazyCursor) Children() []store.Cursor   { return lazyList(l.c.children) }
