// Package mon holds one runtime monitor per property plus the shared driver.
package mon

import (
	"bytes"
	"fmt"
	"os"
	"os/exec"
	"path/filepath"
	"runtime/debug"
	"sort"
	"strconv"
	"strings"
	"sync"
	"sync/atomic"
	"time"

	"github.com/ChrisTrenkamp/xsel"

	"xselverif/internal/evid"
	"xselverif/internal/rng"
)

type Monitor struct {
	ID          string
	Rule        string
	Assumptions []string
	NCases      func(tier string) int
	Case        func(r *evid.Run, tier string, idx int, g *rng.R)
	Pre         func(r *evid.Run, tier string) // optional, before cases
	Post        func(r *evid.Run, tier string) // optional, after cases
	Serial      bool                           // run cases on one goroutine
	InProcess   bool                           // run the cases on goroutines of this process instead of shard child processes
}

var registry = map[string]*Monitor{}

func Register(m *Monitor) { registry[m.ID] = m }

func IDs() []string {
	var ids []string
	for id := range registry {
		ids = append(ids, id)
	}
	sort.Strings(ids)
	return ids
}

func Workers() int {
	if s := os.Getenv("VERIF_WORKERS"); s != "" {
		if n, err := strconv.Atoi(s); err == nil && n > 0 {
			return n
		}
	}
	return 16
}

// Scale lets VERIF_SCALE shrink/grow case counts (used by selfcheck on mutants).
func Scale(n int) int {
	if n == 0 {
		return 0
	}
	if s := os.Getenv("VERIF_SCALE"); s != "" {
		if f, err := strconv.ParseFloat(s, 64); err == nil && f > 0 {
			n = int(float64(n) * f)
			if n < 1 {
				n = 1
			}
		}
	}
	return n
}

// RunMonitor executes a monitor; only >= 0 restricts to one case (replay).
//
// Cases are dealt to shard child processes (one per worker), each of which runs
// its cases one after the other on a single goroutine: a fatal error in the
// library (stack overflow, concurrent map write) ends one shard, not the check,
// and is reported as a violation attributed to the journaled case; and no two
// cases ever share library state within a process except through the library's
// own globals, which is exactly what C13 wants to observe.
func RunMonitor(id, tier string, seed uint64, only int) int {
	m := registry[id]
	if m == nil {
		fmt.Println("unknown property", id)
		return 2
	}
	r := evid.NewRun(id, tier, seed)
	r.Rule = m.Rule
	r.Assumptions = m.Assumptions
	guard := func(what string, f func()) {
		defer func() {
			if p := recover(); p != nil {
				r.Broken(fmt.Sprintf("harness panic in %s: %v\n%s", what, p, debug.Stack()))
			}
		}()
		f()
	}
	if m.Pre != nil && only < 0 {
		guard("pre", func() { m.Pre(r, tier) })
	}
	n := 0
	if m.NCases != nil {
		n = Scale(m.NCases(tier))
	}
	switch {
	case n == 0:
	case only >= 0 || m.InProcess || os.Getenv("VERIF_INPROCESS") != "":
		runInProcess(m, r, id, tier, seed, only, n, 0, 1)
	default:
		runSharded(m, r, id, tier, seed, n)
	}
	if m.Post != nil && only < 0 {
		guard("post", func() { m.Post(r, tier) })
	}
	return r.Finish()
}

// runInProcess runs the cases i with i % nshards == shard.
func runInProcess(m *Monitor, r *evid.Run, id, tier string, seed uint64, only, n, shard, nshards int) {
	guard := func(what string, f func()) {
		defer func() {
			if p := recover(); p != nil {
				r.Broken(fmt.Sprintf("harness panic in %s: %v\n%s", what, p, debug.Stack()))
			}
		}()
		f()
	}
	workers := Workers()
	if m.Serial || nshards > 1 {
		workers = 1
	}
	var next int64 = -1
	var wg sync.WaitGroup
	for w := 0; w < workers; w++ {
		wg.Add(1)
		go func() {
			defer wg.Done()
			for {
				i := int(atomic.AddInt64(&next, 1))
				if i >= n {
					return
				}
				// cases are dealt to shards by a hash of their index, so that periodic heavy classes
				// (every 10th, every 25th case) do not all land in the same shard
				if (only >= 0 && i != only) || int((uint32(i)*2654435761)>>9)%nshards != shard {
					continue
				}
				if journal != nil {
					journal.Truncate(0)
					journal.Seek(0, 0)
					fmt.Fprintf(journal, "%d\n", i)
				}
				t0 := time.Now()
				guard(fmt.Sprintf("case %d", i), func() {
					m.Case(r, tier, i, rng.New(seed, fmt.Sprintf("%s/%d", id, i)))
				})
				if dt := time.Since(t0); dt > 5*time.Second && os.Getenv("VERIF_DEBUG") != "" {
					fmt.Printf("slow case %d: %v\n", i, dt)
				}
			}
		}()
	}
	wg.Wait()
}

var journal *os.File

// RunShard is the entry point of a shard child process.
func RunShard(id, tier string, seed uint64, shard, nshards int, dir string) int {
	m := registry[id]
	if m == nil {
		return 2
	}
	r := evid.NewRun(id, tier, seed)
	journal, _ = os.OpenFile(filepath.Join(dir, fmt.Sprintf("journal-%d", shard)), os.O_CREATE|os.O_WRONLY|os.O_TRUNC, 0o644)
	n := Scale(m.NCases(tier))
	runInProcess(m, r, id, tier, seed, -1, n, shard, nshards)
	if err := r.ExportShard(filepath.Join(dir, fmt.Sprintf("shard-%d.json", shard))); err != nil {
		fmt.Println("cannot export shard:", err)
		return 2
	}
	return 0
}

func runSharded(m *Monitor, r *evid.Run, id, tier string, seed uint64, n int) {
	dir := filepath.Join(evid.VerifDir, "work", id+"-shards")
	os.RemoveAll(dir)
	os.MkdirAll(dir, 0o755)
	defer os.RemoveAll(dir)
	self, _ := os.Executable()
	nshards := Workers()
	if nshards > n {
		nshards = n
	}
	var wg sync.WaitGroup
	var mu sync.Mutex
	for k := 0; k < nshards; k++ {
		wg.Add(1)
		go func(k int) {
			defer wg.Done()
			cmd := exec.Command(self, "shard", id, tier, strconv.FormatUint(seed, 10), strconv.Itoa(k), strconv.Itoa(nshards), dir)
			cmd.Stdout = os.Stdout
			var errb bytes.Buffer
			cmd.Stderr = &errb
			err := cmd.Run()
			mu.Lock()
			defer mu.Unlock()
			if ierr := r.ImportShard(filepath.Join(dir, fmt.Sprintf("shard-%d.json", k))); ierr != nil || err != nil {
				// the shard process died: attribute it to the journaled case
				jb, _ := os.ReadFile(filepath.Join(dir, fmt.Sprintf("journal-%d", k)))
				tail := errb.String()
				if len(tail) > 1500 {
					tail = tail[:1500] + "…"
				}
				idx, _ := strconv.Atoi(strings.TrimSpace(string(jb)))
				mu.Unlock()
				r.Violate("process-abort", map[string]any{"case": idx, "what": fmt.Sprintf("the process running case %d of %s ended abnormally (%v): %s", idx, id, err, tail)})
				mu.Lock()
			}
		}(k)
	}
	wg.Wait()
}

// ---- safe wrappers around the public API ----

type compiled struct {
	g   xsel.Grammar
	err error
}

// A compiled Grammar holds its whole BSR forest (tens of KiB), so the cache is
// bounded: it is dropped wholesale when it reaches exprCacheMax entries.
const exprCacheMax = 1024

var (
	exprCacheMu sync.Mutex
	exprCache   = map[string]*compiled{}
)

// Build compiles with a bounded process-wide cache (BuildExpr costs 0.3–2 ms).
func Build(s string) (*xsel.Grammar, error) {
	exprCacheMu.Lock()
	cc, ok := exprCache[s]
	exprCacheMu.Unlock()
	if ok {
		return &cc.g, cc.err
	}
	cc = &compiled{}
	func() {
		defer func() {
			if p := recover(); p != nil {
				cc.err = fmt.Errorf("PANIC escaped BuildExpr: %v", p)
			}
		}()
		cc.g, cc.err = xsel.BuildExpr(s)
	}()
	exprCacheMu.Lock()
	if len(exprCache) >= exprCacheMax {
		exprCache = map[string]*compiled{}
	}
	exprCache[s] = cc
	exprCacheMu.Unlock()
	return &cc.g, cc.err
}

// Exec runs a query; a panic escaping the API is turned into an error that
// starts with "PANIC escaped".
func Exec(c xsel.Cursor, g *xsel.Grammar, opts ...xsel.ContextApply) (res xsel.Result, err error) {
	defer func() {
		if p := recover(); p != nil {
			res, err = nil, fmt.Errorf("PANIC escaped Exec: %v", p)
		}
	}()
	return xsel.Exec(c, g, opts...)
}

// ExecStr = Build + Exec.
func ExecStr(c xsel.Cursor, expr string, opts ...xsel.ContextApply) (xsel.Result, error) {
	g, err := Build(expr)
	if err != nil {
		return nil, fmt.Errorf("BuildExpr: %v", err)
	}
	return Exec(c, g, opts...)
}

func errStr(err error) string {
	if err == nil {
		return ""
	}
	s := err.Error()
	if len(s) > 300 {
		s = s[:300] + "…"
	}
	return s
}
