// Package mon holds one runtime monitor per property plus the shared driver.
package mon

import (
	"fmt"
	"os"
	"runtime/debug"
	"sort"
	"strconv"
	"sync"
	"sync/atomic"
	"time"

	"github.com/ChrisTrenkamp/xsel"

	"xselverif/internal/evid"
	"xselverif/internal/rng"
)

type Monitor struct {
	ID          string
	Rule        string
	Assumptions []string
	NCases      func(tier string) int
	Case        func(r *evid.Run, tier string, idx int, g *rng.R)
	Pre         func(r *evid.Run, tier string) // optional, before cases
	Post        func(r *evid.Run, tier string) // optional, after cases
	Serial      bool                           // run cases on one goroutine
}

var registry = map[string]*Monitor{}

func Register(m *Monitor) { registry[m.ID] = m }

func IDs() []string {
	var ids []string
	for id := range registry {
		ids = append(ids, id)
	}
	sort.Strings(ids)
	return ids
}

func Workers() int {
	if s := os.Getenv("VERIF_WORKERS"); s != "" {
		if n, err := strconv.Atoi(s); err == nil && n > 0 {
			return n
		}
	}
	return 16
}

// Scale lets VERIF_SCALE shrink/grow case counts (used by selfcheck on mutants).
func Scale(n int) int {
	if n == 0 {
		return 0
	}
	if s := os.Getenv("VERIF_SCALE"); s != "" {
		if f, err := strconv.ParseFloat(s, 64); err == nil && f > 0 {
			n = int(float64(n) * f)
			if n < 1 {
				n = 1
			}
		}
	}
	return n
}

// RunMonitor executes a monitor; only >= 0 restricts to one case (replay).
func RunMonitor(id, tier string, seed uint64, only int) int {
	m := registry[id]
	if m == nil {
		fmt.Println("unknown property", id)
		return 2
	}
	r := evid.NewRun(id, tier, seed)
	r.Rule = m.Rule
	r.Assumptions = m.Assumptions
	guard := func(what string, f func()) {
		defer func() {
			if p := recover(); p != nil {
				r.Broken(fmt.Sprintf("harness panic in %s: %v\n%s", what, p, debug.Stack()))
			}
		}()
		f()
	}
	if m.Pre != nil && only < 0 {
		guard("pre", func() { m.Pre(r, tier) })
	}
	n := 0
	if m.NCases != nil {
		n = Scale(m.NCases(tier))
	}
	var next int64 = -1
	workers := Workers()
	if m.Serial {
		workers = 1
	}
	var wg sync.WaitGroup
	for w := 0; w < workers; w++ {
		wg.Add(1)
		go func() {
			defer wg.Done()
			for {
				i := int(atomic.AddInt64(&next, 1))
				if i >= n {
					return
				}
				if only >= 0 && i != only {
					continue
				}
				t0 := time.Now()
				guard(fmt.Sprintf("case %d", i), func() {
					m.Case(r, tier, i, rng.New(seed, fmt.Sprintf("%s/%d", id, i)))
				})
				if dt := time.Since(t0); dt > 5*time.Second && os.Getenv("VERIF_DEBUG") != "" {
					fmt.Printf("slow case %d: %v\n", i, dt)
				}
			}
		}()
	}
	wg.Wait()
	if m.Post != nil && only < 0 {
		guard("post", func() { m.Post(r, tier) })
	}
	return r.Finish()
}

// ---- safe wrappers around the public API ----

type compiled struct {
	g   xsel.Grammar
	err error
}

// A compiled Grammar holds its whole BSR forest (tens of KiB), so the cache is
// bounded: it is dropped wholesale when it reaches exprCacheMax entries.
const exprCacheMax = 4096

var (
	exprCacheMu sync.Mutex
	exprCache   = map[string]*compiled{}
)

// Build compiles with a bounded process-wide cache (BuildExpr costs 0.3–2 ms).
func Build(s string) (*xsel.Grammar, error) {
	exprCacheMu.Lock()
	cc, ok := exprCache[s]
	exprCacheMu.Unlock()
	if ok {
		return &cc.g, cc.err
	}
	cc = &compiled{}
	func() {
		defer func() {
			if p := recover(); p != nil {
				cc.err = fmt.Errorf("PANIC escaped BuildExpr: %v", p)
			}
		}()
		cc.g, cc.err = xsel.BuildExpr(s)
	}()
	exprCacheMu.Lock()
	if len(exprCache) >= exprCacheMax {
		exprCache = map[string]*compiled{}
	}
	exprCache[s] = cc
	exprCacheMu.Unlock()
	return &cc.g, cc.err
}

// Exec runs a query; a panic escaping the API is turned into an error that
// starts with "PANIC escaped".
func Exec(c xsel.Cursor, g *xsel.Grammar, opts ...xsel.ContextApply) (res xsel.Result, err error) {
	defer func() {
		if p := recover(); p != nil {
			res, err = nil, fmt.Errorf("PANIC escaped Exec: %v", p)
		}
	}()
	return xsel.Exec(c, g, opts...)
}

// ExecStr = Build + Exec.
func ExecStr(c xsel.Cursor, expr string, opts ...xsel.ContextApply) (xsel.Result, error) {
	g, err := Build(expr)
	if err != nil {
		return nil, fmt.Errorf("BuildExpr: %v", err)
	}
	return Exec(c, g, opts...)
}

func errStr(err error) string {
	if err == nil {
		return ""
	}
	s := err.Error()
	if len(s) > 300 {
		s = s[:300] + "…"
	}
	return s
}
