package mon

import (
	"fmt"
	"regexp"
	"strings"
	"sync"

	"github.com/ChrisTrenkamp/xsel"

	"xselverif/internal/adoc"
	"xselverif/internal/bridge"
	"xselverif/internal/evid"
	"xselverif/internal/refeval"
	"xselverif/internal/refparse"
	"xselverif/internal/rng"
	"xselverif/internal/xast"
)

// C08 — every XPath 1.0 expression parses to the tree its grammar defines; others error.

func init() {
	Register(&Monitor{
		ID: "C08",
		Rule: "(a) typed random ASTs over every production (all operators, all 13 axes, every node test form, predicates, filter expressions, unions, function calls incl. calls as steps, variables, names containing '-', '.', digits, '#', names spelling axes / node types / operators, prefixes doing the same) rendered three ways — minimal parentheses by precedence, fully parenthesised, random legal whitespace at every token boundary — plus grouping-sensitive chains (7 - 2 - 1, 8 div 2 div 2, 1 or 0 and 0, 1 = 1 = 0, - 2 mod 3): BuildExpr must succeed, the compiled query must evaluate on a battery of documents to the reference model's value of the generating AST, and all renderings must agree; " +
			"(b) non-expressions and arbitrary strings: byte deletion/duplication/transposition, bracket unbalancing, illegal characters, truncation at every prefix of valid strings, random strings over the XPath alphabet; every string is classified by the reference recogniser (§3.7 disambiguation rules): invalid => BuildExpr must return an error (not panic, not a query); valid => treated as (a) (values compared when both sides evaluate). " +
			"A disagreement is attributed to an open grammar finding only if rewriting exactly that feature away makes library and reference agree. distinct_nontrivial = distinct (class, rendering, outcome) x token-shape signatures",
		Assumptions: []string{"XML NameChar tables are approximated; generated names stay within ASCII letters, digits, '-', '.', '_', '#' and a few BMP letters", "for mutated strings that happen to be valid but ill-typed only acceptance is judged when exactly one side fails at evaluation"},
		NCases:      func(tier string) int { return map[string]int{"quick": 2500, "thorough": 70000}[tier] },
		Case:        c08Case,
	})
}

var c08Battery []*world
var c08Once sync.Once

func c08Worlds() []*world {
	c08Once.Do(c08Build)
	return c08Battery
}

func c08Build() {
	var out []*world
	for i := 0; i < 3; i++ {
		g := rng.New(4242, fmt.Sprintf("c08doc%d", i))
		d := adoc.Generate(g, adoc.GenOpts{MinNodes: 25, MaxNodes: 45, NS: i, Misc: true, Weird: true, NumericText: i != 1, Lang: true})
		// make sure operator/axis/node-type names occur as element names
		top := d.Root.Children[len(d.Root.Children)-1]
		for top.Kind != adoc.Elem {
			top = d.Root.Children[0]
			break
		}
		for _, e := range d.Elements() {
			top = e
			break
		}
		for _, nm := range []string{"div", "mod", "and", "or", "child", "text", "node", "self", "a-1", "b.c", "x2", "#h", "_u"} {
			e := d.AddElem(top, "", nm)
			d.AddText(e, fmt.Sprint(len(nm)))
			d.AddAttr(e, "", nm, "v")
		}
		// the same reserved words as local names inside namespaces (prefix:local with both halves reserved)
		for k, nm := range []string{"child", "text", "node", "self", "parent", "comment", "descendant"} {
			uri := []string{canonNS["p"], canonNS["q"], canonNS["r"]}[k%3]
			e := d.AddElem(top, uri, nm)
			d.AddText(e, nm)
			d.AddAttr(e, []string{canonNS["q"], canonNS["r"], canonNS["p"]}[k%3], nm, "w")
		}
		d.Finish()
		w, err := newWorld(d)
		if err == nil {
			w.env.NS = c08NS
			w.opts = nsOpts(c08NS)
			w.env.Vars = map[refeval.Name]refeval.Value{{Local: "n"}: 2.0, {Local: "s"}: "a", {Local: "and"}: 3.0, {Space: canonNS["p"], Local: "v"}: "pv", {Local: "x-1"}: 5.0, {Local: "_v"}: 7.0, {Local: "नाम"}: 11.0, {Space: canonNS["p"], Local: "col·lecció"}: 12.0}
			out = append(out, w)
		}
	}
	c08Battery = out
}

// c08NS: the canonical bindings plus prefixes that spell axes and node types
var c08NS = map[string]string{"p": canonNS["p"], "q": canonNS["q"], "r": canonNS["r"], "xml": adoc.XMLNS,
	"self": canonNS["p"], "child": canonNS["q"], "node": canonNS["r"], "text": canonNS["p"], "ancestor": canonNS["q"], "comment": canonNS["r"]}

// c08Vocab lists the battery document's names, choosing for every namespaced name one of
// the prefixes bound to its URI (reserved-word prefixes included).
func c08Vocab(g *rng.R, d *adoc.Doc) (elems, attrs []xast.QN) {
	rev := map[string][]string{}
	for _, p := range []string{"ancestor", "child", "comment", "node", "p", "q", "r", "self", "text"} {
		rev[c08NS[p]] = append(rev[c08NS[p]], p)
	}
	seen := map[xast.QN]bool{}
	for _, n := range d.All {
		if n.Kind != adoc.Elem && n.Kind != adoc.Attr {
			continue
		}
		q := xast.QN{Local: n.Local}
		if n.Space != "" {
			ps := rev[n.Space]
			if len(ps) == 0 {
				continue
			}
			q.Prefix = rng.Pick(g, ps)
		}
		if seen[q] {
			continue
		}
		seen[q] = true
		if n.Kind == adoc.Elem {
			elems = append(elems, q)
		} else {
			attrs = append(attrs, q)
		}
	}
	return
}

var c08Binds = []xsel.ContextApply{xsel.WithVariable("n", xsel.Number(2)), xsel.WithVariable("s", xsel.String("a")), xsel.WithVariable("and", xsel.Number(3)),
	xsel.WithVariableNS(canonNS["p"], "v", xsel.String("pv")), xsel.WithVariable("x-1", xsel.Number(5)), xsel.WithVariable("_v", xsel.Number(7)),
	xsel.WithVariable("नाम", xsel.Number(11)), xsel.WithVariableNS(canonNS["p"], "col·lecció", xsel.Number(12))}

type libOutcome struct {
	buildErr error
	vals     []refeval.Value // per battery doc; nil entry = evaluation error
	errs     []error
}

func c08Lib(s string) libOutcome {
	var o libOutcome
	g, err := Build(s)
	if err != nil {
		o.buildErr = err
		return o
	}
	for _, w := range c08Worlds() {
		res, err := Exec(w.m.Root, g, append(append([]xsel.ContextApply{}, w.opts...), c08Binds...)...)
		if err != nil {
			o.vals = append(o.vals, nil)
			o.errs = append(o.errs, err)
			continue
		}
		v, cerr := w.m.Value(res)
		if cerr != nil {
			o.vals = append(o.vals, nil)
			o.errs = append(o.errs, cerr)
			continue
		}
		o.vals = append(o.vals, v)
		o.errs = append(o.errs, nil)
	}
	return o
}

func c08Model(e xast.Expr) ([]refeval.Value, []error) {
	var vals []refeval.Value
	var errs []error
	for _, w := range c08Worlds() {
		v, err := w.modelEval(w.d.Root, e)
		vals = append(vals, v)
		errs = append(errs, err)
	}
	return vals, errs
}

// agree compares library and model outcomes; strict=false tolerates one-sided
// evaluation errors (ill-typed mutants).
func c08Agree(lib libOutcome, mv []refeval.Value, me []error, strict bool) string {
	for i := range mv {
		le, lv := lib.errs[i], lib.vals[i]
		switch {
		case me[i] != nil && le != nil:
		case me[i] != nil || le != nil:
			if strict {
				return fmt.Sprintf("on battery document %d the library gives %s (error %v) but the reference gives %s (error %v)", i, bridge.Show(lv), errStr(le), bridge.Show(mv[i]), me[i])
			}
		case !bridge.Equal(mv[i], lv, false):
			return fmt.Sprintf("on battery document %d the library evaluates to %s, the grammar's structure gives %s", i, bridge.Show(lv), bridge.Show(mv[i]))
		}
	}
	return ""
}

var reservedNames = map[string]bool{"and": true, "or": true, "div": true, "mod": true}

// normalise rewrites away the features of the open grammar findings; returns
// the new AST and the ids of the findings whose feature was present.
func c08Normalise(e xast.Expr) (xast.Expr, []string) { return c08NormaliseOpt(e, false) }

// c08NormaliseOpt: with keepLiterals the characters of string literals are left alone — an
// expression that both sides accept denotes the literal's characters as written, and no open
// finding says otherwise.
func c08NormaliseOpt(e xast.Expr, keepLiterals bool) (xast.Expr, []string) {
	used := map[string]bool{}
	fixName := func(n string, fn bool) string {
		if reservedNames[n] || (fn && (refparseAxis(n) || n == "comment" || n == "text" || n == "node" || n == "processing-instruction")) {
			used["grammar-reserved-names"] = true
			n = "kw" + n
		}
		if strings.HasPrefix(n, "_") {
			used["grammar-underscore-start"] = true
			n = "u" + strings.TrimLeft(n, "_")
		}
		return n
	}
	var m func(e xast.Expr) xast.Expr
	mcall := func(c xast.Call) xast.Call {
		out := xast.Call{Local: fixName(c.Local, true)}
		if c.Prefix != "" {
			out.Prefix = fixName(c.Prefix, true)
		}
		for _, a := range c.Args {
			out.Args = append(out.Args, m(a))
		}
		return out
	}
	m = func(e xast.Expr) xast.Expr {
		switch v := e.(type) {
		case nil:
			return nil
		case xast.Binary:
			return xast.Binary{Op: v.Op, L: m(v.L), R: m(v.R)}
		case xast.Neg:
			return xast.Neg{X: m(v.X)}
		case xast.Paren:
			return xast.Paren{X: m(v.X)}
		case xast.Num:
			if strings.HasSuffix(v.Text, ".") {
				used["grammar-trailing-dot"] = true
				return xast.Num{V: v.V, Text: strings.TrimSuffix(v.Text, ".")}
			}
			return v
		case xast.Lit:
			if strings.Contains(v.S, "\\") && !keepLiterals {
				used["grammar-backslash-literal"] = true
				return xast.Lit{S: strings.ReplaceAll(v.S, "\\", "B")}
			}
			return v
		case xast.Var:
			out := xast.Var{Prefix: v.Prefix, Local: v.Local}
			if strings.HasPrefix(v.Local, "_") || strings.HasPrefix(v.Prefix, "_") {
				used["grammar-underscore-start"] = true
				out.Local = "u" + strings.TrimLeft(v.Local, "_")
				if v.Prefix != "" {
					out.Prefix = "u" + strings.TrimLeft(v.Prefix, "_")
				}
			}
			return out
		case xast.Call:
			return mcall(v)
		case xast.Path:
			out := xast.Path{Abs: v.Abs}
			if v.Head != nil {
				out.Head = m(v.Head)
			}
			for _, q := range v.HPred {
				out.HPred = append(out.HPred, m(q))
			}
			for _, s := range v.Steps {
				ns := s
				if s.Test.Kind == xast.TName || s.Test.Kind == xast.TLocalAny || s.Test.Kind == xast.TNSAny {
					if s.Test.Local != "" {
						ns.Test.Local = fixName(s.Test.Local, false)
					}
					if s.Test.Prefix != "" {
						ns.Test.Prefix = fixName(s.Test.Prefix, false)
					}
				}
				ns.Preds = nil
				for _, q := range s.Preds {
					ns.Preds = append(ns.Preds, m(q))
				}
				if s.Fn != nil {
					c := mcall(*s.Fn)
					ns.Fn = &c
				}
				out.Steps = append(out.Steps, ns)
			}
			return out
		}
		return e
	}
	out := m(e)
	var ids []string
	for id := range used {
		ids = append(ids, id)
	}
	return out, ids
}

func refparseAxis(n string) bool {
	for _, a := range xast.Axes {
		if a == n {
			return true
		}
	}
	return false
}

var (
	reQNameWS       = regexp.MustCompile(`([\w.#*-])[ \t\r\n]*:[ \t\r\n]*([\w#*])`)
	reNumWS         = regexp.MustCompile(`(\d)[ \t\r\n]*\.[ \t\r\n]*(\d)`)
	reNumWS2        = regexp.MustCompile(`(^|[^\w.)\]])\.[ \t\r\n]+(\d)`)
	reAxisMangled   = regexp.MustCompile(`\b(?:preceding|following)[._0-9]sibling\b|\b(?:ancestor|descendant)(?:[._0-9]or[._0-9-]self|-or[._0-9]self)\b|\bprocessing[._0-9]instruction\b`)
	reVarExtraColon = regexp.MustCompile(`(\$[\pL\pN\pM_#.·-]+:[\pL\pN\pM_#.·-]+)(?::[\pL\pN\pM_#.·:-]*)+`)
	reSlashStar     = regexp.MustCompile(`(^|[(\[,=<>+|*-]|and|or|div|mod)[ \t\r\n]*/[ \t\r\n]*\*`)
)

// c08Rewrites are string-level rewrites for strings the reference rejects but the library accepts.
var c08Rewrites = []struct {
	id string
	f  func(string) string
}{
	{"grammar-qname-whitespace", func(s string) string {
		return reQNameWS.ReplaceAllStringFunc(s, func(m string) string {
			if strings.Contains(m, "::") {
				return m
			}
			return strings.Map(func(r rune) rune {
				if r == ' ' || r == '\t' || r == '\r' || r == '\n' {
					return -1
				}
				return r
			}, m)
		})
	}},
	{"grammar-number-whitespace", func(s string) string {
		s = reNumWS.ReplaceAllString(s, "$1.$2")
		return reNumWS2.ReplaceAllString(s, "$1.$2")
	}},
	{"grammar-backslash-literal", func(s string) string {
		return strings.NewReplacer(`\'`, "B", `\"`, "B", `\\`, "B").Replace(s)
	}},
	{"grammar-backslash-literal", func(s string) string {
		// the generated lexer takes the longest match: in \\' the second backslash may be the one that hides the quote
		return strings.NewReplacer(`\'`, "B", `\"`, "B").Replace(s)
	}},
	{"grammar-axis-name-lexing", func(s string) string {
		return reAxisMangled.ReplaceAllStringFunc(s, func(m string) string {
			if strings.HasPrefix(m, "processing") {
				return "processing-instruction"
			}
			return "self"
		})
	}},
	{"grammar-variable-repetition", func(s string) string {
		return reVarExtraColon.ReplaceAllString(s, "$1")
	}},
	{"grammar-slash-star", func(s string) string {
		return reSlashStar.ReplaceAllStringFunc(s, func(m string) string {
			i := strings.Index(m, "/")
			return m[:i] + "(/)*"
		})
	}},
}

func c08Judge(r *evid.Run, idx int, class, rendering, s string, genAST xast.Expr) {
	r.Eval(1)
	// invalid UTF-8 is read the way the library's []rune conversion reads it (U+FFFD); not judged further
	s = string([]rune(s))
	ast, perr := refparse.Parse(s)
	lib := c08Lib(s)
	r.Tab("class", class, 1)
	viol := func(kind, what string) {
		r.Violate(kind, map[string]any{"case": idx, "what": fmt.Sprintf("%q: %s", s, what), "expr": s, "class": class, "rendering": rendering})
	}
	if lib.buildErr != nil && strings.HasPrefix(lib.buildErr.Error(), "PANIC") {
		viol("panic", errStr(lib.buildErr))
		return
	}
	sig := func(outcome string) {
		r.Sig(class+"|"+rendering+"|"+outcome+"|"+tokenShape(s), true)
	}
	if genAST != nil && perr != nil {
		r.Broken(fmt.Sprintf("reference recogniser rejects a generated expression %q: %v", s, perr))
		return
	}
	known := func(ids []string, what string) bool {
		if len(ids) == 0 {
			return false
		}
		for _, id := range ids {
			if !r.Open(id) {
				return false
			}
		}
		for _, id := range ids {
			r.KnownHit(id, trunc(fmt.Sprintf("%q: %s", s, what)))
		}
		return true
	}
	switch {
	case perr != nil && lib.buildErr != nil:
		sig("both-reject")
	case perr != nil: // reference: not an expression; library accepted it
		what := fmt.Sprintf("BuildExpr accepts a string that is not an XPath 1.0 expression (%v)", perr)
		// attribution: rewriting exactly one known feature away must make both sides agree
		for _, rw := range c08Rewrites {
			s2 := rw.f(s)
			if s2 == s {
				continue
			}
			ast2, perr2 := refparse.Parse(s2)
			ids := []string{rw.id}
			if perr2 != nil {
				// two open findings at once: the rewritten string may still need and/or/div/mod read as operators
				ast2, perr2 = refparse.ParseQ(s2, refparse.Quirks{KeywordOperators: true})
				ids = append(ids, "grammar-reserved-names")
			}
			if perr2 != nil {
				continue
			}
			mv, me := c08Model(ast2)
			// a literal in which backslash hides a quote has no counterpart in XPath 1.0 whose value the
			// library's could be compared with: the counterfactual parse alone attributes the acceptance
			if rw.id == "grammar-backslash-literal" || (rw.id == "grammar-axis-name-lexing" && strings.Contains(s, "processing")) || c08Agree(lib, mv, me, false) == "" || evalFails(lib) || hasFnStepWithArgs(ast2) || hasNamespaceAxisNameTest(ast2) {
				if known(ids, what) {
					sig("known")
					return
				}
			}
		}
		// '/ *' read as (/) * in one place only: rewrite each occurrence on its own
		if locs := reSlashStar.FindAllStringIndex(s, -1); len(locs) > 1 {
			for _, loc := range locs {
				m := s[loc[0]:loc[1]]
				s2 := s[:loc[0]] + m[:strings.Index(m, "/")] + "(/)*" + s[loc[1]:]
				ast2, perr2 := refparse.Parse(s2)
				ids := []string{"grammar-slash-star"}
				if perr2 != nil {
					ast2, perr2 = refparse.ParseQ(s2, refparse.Quirks{KeywordOperators: true})
					ids = append(ids, "grammar-reserved-names")
				}
				if perr2 != nil {
					continue
				}
				mv, me := c08Model(ast2)
				if (c08Agree(lib, mv, me, false) == "" || evalFails(lib) || hasFnStepWithArgs(ast2) || hasNamespaceAxisNameTest(ast2)) && known(ids, what) {
					sig("known")
					return
				}
			}
		}
		// several open findings in one string: all rewrites applied one after the other
		{
			s2, ids := s, []string{}
			seenID := map[string]bool{}
			for _, rw := range c08Rewrites {
				if s3 := rw.f(s2); s3 != s2 {
					s2 = s3
					if !seenID[rw.id] {
						seenID[rw.id] = true
						ids = append(ids, rw.id)
					}
				}
			}
			if len(ids) >= 2 {
				ast2, perr2 := refparse.Parse(s2)
				if perr2 != nil {
					ast2, perr2 = refparse.ParseQ(s2, refparse.Quirks{KeywordOperators: true})
					ids = append(ids, "grammar-reserved-names")
				}
				if perr2 == nil {
					mv, me := c08Model(ast2)
					if seenID["grammar-backslash-literal"] || (seenID["grammar-axis-name-lexing"] && strings.Contains(s, "processing")) || c08Agree(lib, mv, me, false) == "" || evalFails(lib) || hasFnStepWithArgs(ast2) || hasNamespaceAxisNameTest(ast2) {
						if known(ids, what) {
							sig("known")
							return
						}
					}
				}
			}
		}
		// and/or/div/mod read as operators where the grammar makes them names
		if ast2, perr2 := refparse.ParseQ(s, refparse.Quirks{KeywordOperators: true}); perr2 == nil {
			mv, me := c08Model(ast2)
			if (c08Agree(lib, mv, me, false) == "" || hasFnStepWithArgs(ast2) || hasNamespaceAxisNameTest(ast2)) && known([]string{"grammar-reserved-names"}, what) {
				sig("known")
				return
			}
		}
		viol("accepts-non-expression", what)
	case lib.buildErr != nil: // reference: valid; library rejected
		what := "BuildExpr rejects a valid XPath 1.0 expression: " + errStr(lib.buildErr)
		norm, ids := c08Normalise(ast)
		if len(ids) > 0 {
			s2 := xast.String(norm)
			lib2 := c08Lib(s2)
			if lib2.buildErr == nil {
				mv, me := c08Model(norm)
				if (hasFnStepWithArgs(norm) || hasNamespaceAxisNameTest(norm) || c08Agree(lib2, mv, me, false) == "") && known(ids, what) {
					sig("known")
					return
				}
			}
		}
		// XPath literal that ends with a backslash before the closing quote
		if strings.Contains(s, "\\") {
			s2 := strings.ReplaceAll(s, "\\", "B")
			if ast2, e2 := refparse.Parse(s2); e2 == nil {
				lib2 := c08Lib(s2)
				mv, me := c08Model(ast2)
				if lib2.buildErr == nil && c08Agree(lib2, mv, me, false) == "" && known([]string{"grammar-backslash-literal"}, what) {
					sig("known")
					return
				}
			}
		}
		viol("rejects-expression", what)
	default: // both accept: structure must agree
		use := ast
		strict := false
		if genAST != nil {
			use, strict = genAST, true
		}
		if genAST == nil && (hasFnStepWithArgs(ast) || hasNamespaceAxisNameTest(ast)) {
			sig("accept-not-judged") // function-call steps with arguments are outside the statement
			return
		}
		mv, me := c08Model(use)
		if msg := c08Agree(lib, mv, me, strict); msg != "" {
			// a reserved word read as an operator where the grammar makes it a name?
			if norm, ids := c08NormaliseOpt(use, true); len(ids) > 0 {
				lib2 := c08Lib(xast.String(norm))
				if lib2.buildErr == nil {
					mv2, me2 := c08Model(norm)
					if c08Agree(lib2, mv2, me2, false) == "" && known(ids, msg) {
						sig("known")
						return
					}
				}
			}
			// '/*' at the start of an operand read as (/) * where a multiplicative operator follows
			// (the ambiguity of finding grammar-slash-star, seen from a valid expression)
			for _, loc := range reSlashStar.FindAllStringIndex(s, -1) {
				m := s[loc[0]:loc[1]]
				s2 := s[:loc[0]] + m[:strings.Index(m, "/")] + "(/)*" + s[loc[1]:]
				if ast2, perr2 := refparse.Parse(s2); perr2 == nil {
					mv2, me2 := c08Model(ast2)
					if c08Agree(lib, mv2, me2, false) == "" && known([]string{"grammar-slash-star"}, msg) {
						sig("known")
						return
					}
				}
			}
			viol("structure", msg)
			return
		}
		if genAST != nil {
			// the recogniser's own reading must coincide with the generating AST (keeps the model honest)
			mv2, me2 := c08Model(ast)
			for i := range mv {
				if (me[i] == nil) != (me2[i] == nil) || (me[i] == nil && !bridge.Equal(mv[i], mv2[i], false)) {
					r.Broken(fmt.Sprintf("reference recogniser reads %q differently from the generating AST", s))
					return
				}
			}
		}
		nt := "accept"
		for i := range mv {
			if me[i] == nil {
				if ns, ok := mv[i].(refeval.NodeSet); !ok || len(ns) > 0 {
					nt = "accept-nonempty"
				}
			}
		}
		sig(nt)
		if nt == "accept-nonempty" {
			r.Sample(class+"/"+rendering, 1, map[string]any{"case": idx, "expr": s, "value_on_doc0": bridge.Show(mv[0])})
		}
	}
}

// name tests on the namespace axis follow the library's own URI rule (outside the statement)
func hasNamespaceAxisNameTest(e xast.Expr) bool {
	found := false
	xast.Walk(e, func(x xast.Expr) {
		if p, ok := x.(xast.Path); ok {
			for _, s := range p.Steps {
				if s.Fn == nil && s.Axis == "namespace" && (s.Test.Kind == xast.TName || s.Test.Kind == xast.TNSAny || s.Test.Kind == xast.TLocalAny) {
					found = true
				}
			}
		}
	})
	return found
}

func hasFnStepWithArgs(e xast.Expr) bool {
	found := false
	xast.Walk(e, func(x xast.Expr) {
		if p, ok := x.(xast.Path); ok {
			for _, s := range p.Steps {
				if s.Fn != nil && len(s.Fn.Args) > 0 {
					found = true
				}
			}
		}
	})
	return found
}

func evalFails(l libOutcome) bool {
	for _, e := range l.errs {
		if e == nil {
			return false
		}
	}
	return len(l.errs) > 0
}

// tokenShape abstracts a string to its punctuation skeleton.
func tokenShape(s string) string {
	var sb strings.Builder
	last := byte(0)
	for i := 0; i < len(s) && sb.Len() < 24; i++ {
		c := s[i]
		var k byte
		switch {
		case c >= '0' && c <= '9':
			k = '9'
		case c == '_' || c >= 0x80 || (c >= 'a' && c <= 'z') || (c >= 'A' && c <= 'Z'):
			k = 'a'
		case c == ' ' || c == '\t' || c == '\n' || c == '\r':
			k = ' '
		default:
			k = c
		}
		if k != last || (k != 'a' && k != '9' && k != ' ') {
			sb.WriteByte(k)
		}
		last = k
	}
	return sb.String()
}

func c08Case(r *evid.Run, tier string, idx int, g *rng.R) {
	ws := c08Worlds()
	if len(ws) == 0 {
		r.Broken("battery documents could not be built")
		return
	}
	d := ws[idx%len(ws)].d
	_, _, targets := vocab(d)
	elems, attrs := c08Vocab(g, d)
	cfg := &xast.Cfg{Elems: elems, Attrs: attrs, Prefixes: []string{"p", "q", "r", "self", "node", "child"}, Targets: targets, Axes: xast.Axes, MaxSteps: 3, MaxDepth: 3, PredPct: 35, Abbrev: 50,
		Unions: true, Filters: true, AbsInPred: true, FnSteps: true, StrLits: []string{"", "a", "1", " 2 ", "é", "x y", "it's", "q\"q", "a\\nb", "C:\\\\new", "t\\tt", "a\\b", "a\\rb"}, NumLits: []float64{0, 1, 2, 0.5, 1.5, 100, 12.25},
		Vars: []xast.VarSpec{{Local: "n", T: xast.TNum}, {Local: "s", T: xast.TStr}, {Local: "and", T: xast.TNum}, {Prefix: "p", Local: "v", T: xast.TStr}, {Local: "x-1", T: xast.TNum}, {Local: "नाम", T: xast.TNum}, {Prefix: "p", Local: "col·lecció", T: xast.TNum}}}
	funcs := map[string]bool{}
	for k := range xast.AllFuncs {
		funcs[k] = true
	}
	delete(funcs, "round") // negative ties are an open C06 finding; keep C08 about structure
	cfg.Funcs = funcs
	gen := &xast.Gen{R: g, C: cfg}
	wsFn := func(slot int) string {
		if g.P(55) {
			return ""
		}
		return rng.Pick(g, []string{" ", "  ", "\t", "\n", "\r\n", " \n "})
	}
	var valid []string
	// (a) typed ASTs in three renderings
	for i := 0; i < 6; i++ {
		var e xast.Expr
		switch g.Intn(8) {
		case 0:
			e = c08Chain(g)
		case 1:
			p := gen.AbsPath(0)
			e = gen.WithFnStep(p)
		default:
			e = gen.Expr(xast.Type(g.Intn(4)), 0)
		}
		min := xast.Render(e, xast.RenderOpts{SlashStarRaw: true})
		full := xast.Render(e, xast.RenderOpts{FullParens: true, SlashStarRaw: true})
		spaced := xast.Render(e, xast.RenderOpts{WS: wsFn, SlashStarRaw: true})
		c08Judge(r, idx, "generated", "minimal", min, e)
		c08Judge(r, idx, "generated", "full-parens", full, e)
		c08Judge(r, idx, "generated", "whitespace", spaced, e)
		valid = append(valid, min, spaced)
	}
	// (b) mutants and random strings
	for _, s := range valid[:4] {
		b := []byte(s)
		// truncation at every prefix (capped)
		step := 1
		if len(b) > 24 {
			step = len(b) / 24
		}
		for i := 0; i < len(b); i += step {
			c08Judge(r, idx, "prefix", "-", string(b[:i]), nil)
		}
		for k := 0; k < 8 && len(b) > 0; k++ {
			i := g.Intn(len(b))
			var m string
			switch g.Intn(6) {
			case 0:
				m = string(b[:i]) + string(b[i+1:])
			case 1:
				m = string(b[:i]) + string(b[i]) + string(b[i:])
			case 2:
				j := g.Intn(len(b))
				c := append([]byte{}, b...)
				c[i], c[j] = c[j], c[i]
				m = string(c)
			case 3:
				m = string(b[:i]) + rng.Pick(g, []string{"(", ")", "[", "]", "'", "\""}) + string(b[i:])
			case 4:
				m = string(b[:i]) + rng.Pick(g, []string{"!", "%", "^", "&", "{", "}", "~", "`", ";", "?", "\\", "\x00", "§", "#", "_"}) + string(b[i:])
			default:
				m = string(b[:i]) + rng.Pick(g, []string{" ", ":", "::", ".", "..", "/", "//", "*", "-", "|", "$", "@", ",", "div", "and", " or ", "1", "1.", ".5"}) + string(b[i:])
			}
			if exoticRunes(s, m) {
				// swapping or deleting single bytes of multi-byte characters can create characters outside
				// the repertoire the generators use; whether such a character may occur in a name is decided
				// by tables (XML 1.0 2nd edition, Appendix B) which the recogniser only approximates
				r.Count("mutants_not_judged_new_non_ascii_character", 1)
				continue
			}
			c08Judge(r, idx, "mutant", "-", m, nil)
		}
	}
	alpha := []string{"a", "b", "div", "and", "or", "mod", "node", "text", "child", "self", "p", ":", "::", "/", "//", "*", "[", "]", "(", ")", "@", ".", "..", "|", "+", "-", "=", "!=", "<", "<=", ">", ">=", ",", "'x'", "\"y\"", "$", "1", "2.5", ".5", "1.", " ", "  ", "_", "#", "-1", "a-b", "a.b"}
	for k := 0; k < 25; k++ {
		n := g.Range(1, 7)
		var sb strings.Builder
		for i := 0; i < n; i++ {
			sb.WriteString(rng.Pick(g, alpha))
		}
		c08Judge(r, idx, "random", "-", sb.String(), nil)
	}
}

// c08Chain: chains whose value depends on grouping.
func c08Chain(g *rng.R) xast.Expr {
	n := func(v float64) xast.Expr { return xast.N(v) }
	b := func(op string, l, r xast.Expr) xast.Expr { return xast.Binary{Op: op, L: l, R: r} }
	ops := []string{"+", "-", "*", "div", "mod", "=", "!=", "<", "<=", ">", ">=", "and", "or"}
	var e xast.Expr = n(float64(g.Range(1, 9)))
	for k := g.Range(2, 5); k > 0; k-- {
		op := rng.Pick(g, ops)
		rhs := n(float64(g.Range(1, 9)))
		if g.P(20) {
			rhs = xast.Neg{X: rhs}
		}
		if g.P(25) {
			e = b(op, rhs, e) // right-nested: needs parentheses
		} else {
			e = b(op, e, rhs)
		}
		if g.P(15) {
			e = xast.Neg{X: e}
		}
	}
	return e
}

// exoticRunes reports whether mutant m contains a non-ASCII character (other than U+FFFD) that its
// source string does not contain.
func exoticRunes(src, m string) bool {
	have := map[rune]bool{}
	for _, c := range src {
		have[c] = true
	}
	for _, c := range string([]rune(m)) {
		if c >= 0x80 && c != 0xFFFD && !have[c] {
			return true
		}
	}
	return false
}
