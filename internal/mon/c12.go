package mon

import (
	"fmt"
	"strings"

	"github.com/ChrisTrenkamp/xsel"

	"xselverif/internal/adoc"
	"xselverif/internal/bridge"
	"xselverif/internal/evid"
	"xselverif/internal/refeval"
	"xselverif/internal/rng"
	"xselverif/internal/xast"
)

// C12 — node functions (name, local-name, namespace-uri, count, lang).

func init() {
	Register(&Monitor{
		ID: "C12",
		Rule: "per generated document (namespaces, PIs, comments, xml:lang on self/ancestors/nowhere with tags from {2-3 letter primary, script, region, variant, private use, empty, mixed case}): local-name/namespace-uri/name with no argument from every context node of every kind and with arguments that are empty, singleton, multi-node (reverse-axis results, unions, reverse-ordered variables); count() on node-sets and on the three other types (must be an error); every tenth case is an HTML tag soup (with SVG/MathML foreign content) read with ReadHtml, judged against the names of the HTML5 parse tree; lang(L) from every node of every kind with L from {equal, prefix at a subtag boundary, prefix inside a subtag, longer, other case, unrelated, empty}; " +
			"oracle = reference model; relation name(x) = local-name(x) iff namespace-uri(x) = ''. distinct_nontrivial = distinct (function, context/argument kind, result) triples",
		NCases: func(tier string) int { return map[string]int{"quick": 3000, "thorough": 120000}[tier] },
		Case:   c12Case,
	})
}

func langProbes(g *rng.R, tag string) []string {
	out := []string{tag, "", "en", "zh", "de", "x", "fr"}
	for i := 1; i <= len(tag); i++ {
		if i == len(tag) || tag[i] == '-' || g.P(25) {
			out = append(out, tag[:i])
		}
	}
	if len(tag) > 0 {
		out = append(out, tag+"-x", tag+"x")
		b := []byte(tag)
		for i := range b {
			if b[i] >= 'a' && b[i] <= 'z' {
				b[i] -= 32
			} else if b[i] >= 'A' && b[i] <= 'Z' {
				b[i] += 32
			}
		}
		out = append(out, string(b))
		// letters in a random mix of cases, other bytes untouched
		c := []byte(tag)
		for i := range c {
			if (c[i] >= 'a' && c[i] <= 'z' || c[i] >= 'A' && c[i] <= 'Z') && g.Bool() {
				c[i] ^= 0x20
			}
		}
		out = append(out, string(c))
		// the same with bit 0x20 toggled on the ASCII punctuation next to the letters (@ ` [ { ] } ^ ~ _ \x7f):
		// these are different characters, not case variants
		e := []byte(tag)
		changed := false
		for i := range e {
			if e[i] >= 0x40 && e[i] < 0x80 && !(e[i]|0x20 >= 'a' && e[i]|0x20 <= 'z') {
				e[i] ^= 0x20
				changed = true
			}
		}
		if changed {
			out = append(out, string(e), string(b))
		}
	}
	return out
}

// c12HTML: the name functions on documents read with ReadHtml; the reference names are those of
// the HTML5 parse tree (case-adjusted SVG/MathML names kept, prefixes stripped).
func c12HTML(r *evid.Run, idx int, g *rng.R) {
	w, src, err := newHTMLWorld(g)
	r.Count("cases_through_ReadHtml", 1)
	if err != nil {
		r.Violate("name/through-ReadHtml", map[string]any{"case": idx, "what": "the tree ReadHtml built differs from the HTML5 parse tree of the same text: " + err.Error(), "html": src})
		return
	}
	if w == nil {
		return
	}
	for _, n := range w.d.All {
		for _, f := range []string{"name", "local-name", "namespace-uri"} {
			if v, ok := w.check(r, "html/"+f+"/"+n.Kind.String(), idx, n, xast.Fn(f), false); ok {
				r.Tab("function_x_context", "html "+f+"() from "+n.Kind.String(), 1)
				r.Sig(fmt.Sprintf("html|%s|%s|%v", f, n.Kind, v), v != "")
			}
		}
	}
	// name tests agree with the name functions: //*[local-name() = N] = //N for every element name
	seen := map[string]bool{}
	for _, e := range w.d.Elements() {
		if seen[e.Local] || e.Local == "" || strings.ContainsAny(e.Local, ":'\"") {
			continue
		}
		seen[e.Local] = true
		byFn := xast.Abs(xast.DS(), xast.S("child", xast.AnyT(), xast.Binary{Op: "=", L: xast.Fn("local-name"), R: xast.Lit{S: e.Local}}))
		w.check(r, "html/by-local-name", idx, w.d.Root, xast.Fn("count", byFn), false)
	}
}

func c12Case(r *evid.Run, tier string, idx int, g *rng.R) {
	if idx%10 == 6 {
		c12HTML(r, idx, g)
		return
	}
	o := adoc.GenOpts{MinNodes: 5, MaxNodes: 35, NS: 1 + g.Intn(2), Misc: true, Weird: g.P(30), Lang: true, NoXMLNS: g.P(20)}
	d := adoc.Generate(g, o)
	if idx%150 == 17 {
		// a chain deeper than the usual limits of walks towards the root
		adoc.Deepen(g, d, rng.Pick(g, []int{64, 130, 254, 255, 256, 257, 300}))
		d.Finish()
		r.Count("cases_with_a_deep_chain", 1)
	}
	w, err := newWorld(d)
	if err == nil && idx%4 == 3 {
		// every fourth case runs the evaluator on the independent Cursor implementation (R-ref)
		w, err = newRefWorld(d)
		r.Count("cases_on_reference_cursor", 1)
		if err == nil && idx%8 == 7 {
			// identity of nodes is Pos(): this view hands out a fresh cursor value on every access
			w.lazy = true
			r.Count("cases_on_lazily_allocated_cursors", 1)
		}
	}
	if err != nil {
		r.Inconclusive("store tree mismatch: " + err.Error())
		return
	}
	// zero-argument forms from every node
	for _, n := range d.All {
		vals := map[string]refeval.Value{}
		for _, fn := range []string{"local-name", "namespace-uri", "name"} {
			v, ok := w.check(r, "name-fn/"+fn+"/"+n.Kind.String(), idx, n, xast.Fn(fn), false)
			r.Tab("function_x_context", fn+"() from "+n.Kind.String(), 1)
			if ok {
				vals[fn] = v
				r.Sig(fmt.Sprintf("%s|ctx:%s|%v", fn, n.Kind, v), true)
			}
		}
		if len(vals) == 3 {
			same := vals["name"] == vals["local-name"]
			if same != (vals["namespace-uri"] == "") {
				r.Violate("relation/name", map[string]any{"case": idx, "what": fmt.Sprintf("from %s: name()=%v local-name()=%v namespace-uri()=%v", n.Path(), vals["name"], vals["local-name"], vals["namespace-uri"]), "document": d.Dump()})
			}
		}
	}
	// argument forms
	var args []xast.Expr
	args = append(args,
		xast.Rel(xast.S("child", xast.NameT("", "no-such"))),
		xast.Rel(xast.S("self", xast.NodeT())),
		xast.Rel(xast.S("ancestor-or-self", xast.NodeT())),
		xast.Rel(xast.S("ancestor", xast.AnyT())),
		xast.Rel(xast.S("preceding", xast.NodeT())),
		xast.Rel(xast.S("preceding-sibling", xast.NodeT())),
		xast.Rel(xast.S("following", xast.NodeT())),
		xast.Rel(xast.S("descendant", xast.NodeT())),
		xast.Rel(xast.Step{Axis: "attribute", Test: xast.AnyT(), Abbrev: true}),
		xast.Rel(xast.S("namespace", xast.AnyT())),
		xast.Rel(xast.S("parent", xast.NodeT()), xast.S("namespace", xast.AnyT())),
		xast.Binary{Op: "|", L: xast.Rel(xast.S("preceding", xast.NodeT())), R: xast.Rel(xast.S("following", xast.NodeT()))},
		xast.Rel(xast.S("ancestor-or-self", xast.NodeT()), xast.S("child", xast.Test{Kind: xast.TPI})),
		xast.Rel(xast.S("ancestor-or-self", xast.NodeT()), xast.S("child", xast.Test{Kind: xast.TComment})),
		xast.Var{Local: "rev"},
		xast.Var{Local: "shuf"},
	)
	var pool []*adoc.Node
	for _, n := range d.All {
		if g.P(25) {
			pool = append(pool, n)
		}
	}
	vset := refeval.NodeSet(adoc.SortDoc(pool))
	fwd := w.m.Lib(vset).(xsel.NodeSet)
	rev := make(xsel.NodeSet, len(fwd))
	for i := range fwd {
		rev[len(fwd)-1-i] = fwd[i]
	}
	shuf := append(xsel.NodeSet{}, fwd...)
	rng.Shuffle(g, shuf)
	w.env.Vars = map[refeval.Name]refeval.Value{{Local: "rev"}: vset, {Local: "shuf"}: vset, {Local: "s"}: "str", {Local: "n"}: 1.0, {Local: "b"}: true}
	binds := []xsel.ContextApply{xsel.WithVariable("rev", rev), xsel.WithVariable("shuf", shuf), xsel.WithVariable("s", xsel.String("str")), xsel.WithVariable("n", xsel.Number(1)), xsel.WithVariable("b", xsel.Bool(true))}
	nctx := 6
	if tier == "thorough" {
		nctx = 12
	}
	for i := 0; i < nctx; i++ {
		n := rng.Pick(g, d.All)
		for _, a := range args {
			for _, fn := range []string{"local-name", "namespace-uri", "name", "count"} {
				v, ok := w.check(r, "name-fn-arg/"+fn, idx, n, xast.Fn(fn, a), false, binds...)
				if ok {
					r.Sig(fmt.Sprintf("%s|arg|%v", fn, v), true)
					r.Tab("function_x_context", fn+"(arg)", 1)
				}
			}
		}
		// count() of non-node-sets must be an error
		for _, a := range []xast.Expr{xast.Var{Local: "s"}, xast.Var{Local: "n"}, xast.Var{Local: "b"}, xast.Lit{S: "x"}, xast.N(3), xast.Fn("true")} {
			_, ok := w.check(r, "count-non-nodeset", idx, n, xast.Fn("count", a), false, binds...)
			if ok {
				r.Sig("count-error|"+xast.String(a), true)
			}
		}
	}
	// lang()
	tags := map[string]bool{}
	for _, n := range d.All {
		if n.Kind == adoc.Attr && n.Space == adoc.XMLNS && n.Local == "lang" {
			tags[n.Value] = true
		}
	}
	var probes []string
	for t := range tags {
		probes = append(probes, langProbes(g, t)...)
	}
	probes = append(probes, rng.Pick(g, adoc.LangTags()), "en")
	seen := map[string]bool{}
	for _, n := range d.All {
		for _, l := range probes {
			if seen[n.Path()+"|"+l] || (len(probes) > 12 && g.P(50)) {
				continue
			}
			seen[n.Path()+"|"+l] = true
			v, ok := w.check(r, "lang/"+n.Kind.String(), idx, n, xast.Fn("lang", xast.Lit{S: l}), false)
			r.Tab("function_x_context", "lang() from "+n.Kind.String(), 1)
			if ok {
				r.Sig(fmt.Sprintf("lang|%s|%s|%v", n.Kind, l, v), true)
				if v == true {
					r.Sample("lang", 3, map[string]any{"case": idx, "context": n.Path(), "L": l, "result": bridge.Show(v), "document": d.Dump()})
				}
			}
		}
	}
	// nodes of a second document in the same query: lang() and the name functions answer for the
	// node they are asked about, whatever tree it belongs to
	if idx%3 == 1 && !w.ref && idx%150 != 17 {
		tags := []string{"en", "fr", "de", "zh", "en-GB", "EN", "x"}
		w.env.Vars, w.env.Funcs = nil, nil
		foreignSection(r, "two-documents", idx, g, w, o, func(g *rng.R, w *world) xast.Expr {
			l := xast.Lit{S: rng.Pick(g, tags)}
			switch g.Intn(3) {
			case 0:
				return xast.Fn("count", xast.Abs(xast.DS(), xast.S("child", xast.AnyT(), xast.Fn("lang", l))))
			case 1:
				return xast.Fn("name", xast.Abs(xast.DS(), xast.S("child", xast.AnyT(), xast.N(float64(g.Range(1, 3))))))
			}
			return xast.Fn("count", xast.Abs(xast.DS(), xast.S("child", xast.NodeT(), xast.Fn("lang", l))))
		}, func(g *rng.R, wB *world, ov xast.Expr) xast.Expr {
			l := xast.Lit{S: rng.Pick(g, tags)}
			switch g.Intn(5) {
			case 0:
				return xast.Fn("count", xast.Path{Head: ov, HPred: []xast.Expr{xast.Fn("lang", l)}})
			case 1:
				return xast.Fn("count", xast.Path{Head: ov, Steps: []xast.Step{xast.DS(), xast.S("child", xast.AnyT(), xast.Fn("lang", l))}})
			case 2:
				return xast.Fn("name", ov)
			case 3:
				return xast.Fn("local-name", xast.Path{Head: ov, HPred: []xast.Expr{xast.Fn("last")}})
			}
			return xast.Fn("count", xast.Path{Head: ov, Steps: []xast.Step{xast.S("descendant-or-self", xast.NodeT(), xast.Fn("not", xast.Fn("lang", l)))}})
		})
	}
}
