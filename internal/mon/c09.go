package mon

import (
	"bytes"
	"encoding/xml"
	"fmt"
	"io"
	"strings"

	"github.com/ChrisTrenkamp/xsel"
	"github.com/ChrisTrenkamp/xsel/parser"
	"github.com/ChrisTrenkamp/xsel/store"
	"golang.org/x/net/html/charset"
	"golang.org/x/text/encoding"
	"golang.org/x/text/encoding/charmap"

	"xselverif/internal/adoc"
	"xselverif/internal/evid"
	"xselverif/internal/rng"
)

// C09 — ReadXml builds the XPath data model of the XML document.

func init() {
	Register(&Monitor{
		ID: "C09",
		Rule: "per case one abstract document -> namespace normalisation (prefix choice, hoisted/repeated/overridden declarations, default namespace and its undeclaration) -> 3 randomised serialisations (quote style, empty-element tags, whitespace in tags, text as plain/CDATA/decimal+hex character references/predefined entities, XML declaration variants, DOCTYPE, prolog/epilog comments and PIs, LF/CRLF, encodings UTF-8 (+-BOM), US-ASCII, ISO-8859-1/-15, windows-1252, KOI8-R) -> xsel.ReadXml from a reader whose delivery pattern (one Read / pseudo-random chunks of 1..23 bytes / one byte per Read / a Read ending after every '>') is determined by the bytes; " +
			"oracle: parallel walk of the cursor tree against the document (expanded names, attributes without namespace declarations, merged character data, comments, PIs without the XML declaration, per-element namespace nodes = in-scope bindings + xml each owned by that element) plus the C10 structural invariants; " +
			"malformed inputs by mutation (dropped/mismatched end tag, truncation, undefined entity, control characters, invalid UTF-8, bogus encoding label): whenever encoding/xml itself (same charset reader) reports a non-EOF error on the bytes, ReadXml must return a non-nil error. distinct_nontrivial = distinct (document shape, serialisation feature set) for well-formed inputs plus distinct mutation kinds x shapes",
		Assumptions: []string{"attribute order/duplicates, CRLF normalisation and charset tables are encoding/xml's and x/net's, not xsel's", "white space outside the document element is not part of the data model"},
		NCases:      func(tier string) int { return map[string]int{"quick": 30000, "thorough": 1000000}[tier] },
		Case:        c09Case,
	})
}

var c09Encodings = []struct {
	label string
	enc   encoding.Encoding
	fill  rune
}{
	{"UTF-8", nil, 0}, {"utf-8", nil, 0}, {"US-ASCII", nil, 'x'}, {"ISO-8859-1", charmap.ISO8859_1, 'é'}, {"iso-8859-15", charmap.ISO8859_15, '€'},
	{"windows-1252", charmap.Windows1252, '“'}, {"KOI8-R", charmap.KOI8R, 'ж'},
}

// oracleXMLError runs encoding/xml over the bytes exactly as a conforming
// reader would and reports the first non-EOF error.
func oracleXMLError(b []byte) error {
	dec := xml.NewDecoder(bytes.NewReader(b))
	dec.CharsetReader = charset.NewReaderLabel
	for {
		_, err := dec.Token()
		if err == io.EOF {
			return nil
		}
		if err != nil {
			return err
		}
	}
}

func safeReadXml(b []byte) (c xsel.Cursor, err error) {
	defer func() {
		if p := recover(); p != nil {
			c, err = nil, fmt.Errorf("PANIC escaped ReadXml: %v", p)
		}
	}()
	rd, _ := hostileReader(b, contentMode(b)) // whole / chunks / single bytes / Reads ending after '>' — determined by the content
	return xsel.ReadXml(rd)
}

// c09Alternating: two XML parsers pulled alternately, one event each.
func c09Alternating(r *evid.Run, idx int, g *rng.R) {
	var texts [2]string
	var docs [2]*adoc.Doc
	for k := 0; k < 2; k++ {
		d := adoc.Generate(g, adoc.GenOpts{MinNodes: 2, MaxNodes: 30, NS: g.Intn(3), Misc: true, Lang: g.P(20), XMLSafe: true, NoAdjText: true})
		for _, n := range d.All {
			n.Local = strings.ReplaceAll(n.Local, "#", "h")
		}
		d.NormalizeNS(g)
		d.Finish()
		docs[k], texts[k] = d, d.ToXML(adoc.XMLOpts{})
	}
	ra, rb, ea, eb := buildAlternating(parser.ReadXml(strings.NewReader(texts[0])), parser.ReadXml(strings.NewReader(texts[1])))
	r.Eval(2)
	r.Count("alternating_parser_pairs", 1)
	for k, t := range []struct {
		root store.Cursor
		err  error
	}{{ra, ea}, {rb, eb}} {
		if t.err != nil {
			r.Violate("alternating/error", map[string]any{"case": idx, "what": fmt.Sprintf("document %d of two XML documents parsed alternately: %v", k, t.err), "xml": texts[k]})
			continue
		}
		if class, what := checkStore(t.root, docs[k]); class != "" {
			r.Violate("alternating/"+class, map[string]any{"case": idx, "what": fmt.Sprintf("document %d of two XML documents parsed alternately: %s", k, what), "xml": texts[k], "other_xml": texts[1-k]})
		}
	}
}

func c09Case(r *evid.Run, tier string, idx int, g *rng.R) {
	if idx%40 == 13 {
		c09Alternating(r, idx, g)
		return
	}
	if idx%50 == 0 {
		// an option hook of the embedding program defines entities for ONE call, the composable way
		// (extend the decoder's table if there is one); later calls without the hook know none of them
		hook := func(d *xml.Decoder) {
			if d.Entity == nil {
				d.Entity = map[string]string{}
			}
			d.Entity["nope"], d.Entity["corp"] = "defined-by-an-earlier-call", "ACME"
		}
		c, err := xsel.ReadXml(strings.NewReader(`<r a="&corp;">&nope;</r>`), hook)
		r.Eval(1)
		r.Count("calls_with_an_entity_hook", 1)
		if err != nil || xsel.GetCursorString(c) != "defined-by-an-earlier-call" {
			r.Violate("option-hook", map[string]any{"case": idx, "what": fmt.Sprintf("ReadXml with a decoder hook defining &nope; gives %v (%v)", c, errStr(err))})
		}
		if _, err := xsel.ReadXml(strings.NewReader(`<r>&nope;</r>`)); err == nil {
			r.Violate("option-hook/leaks", map[string]any{"case": idx, "what": "ReadXml without options accepts &nope;, an entity that only an earlier call's option hook defined"})
		}
	}
	o := adoc.GenOpts{MinNodes: 2, MaxNodes: 40, NS: g.Intn(3), Misc: true, Weird: g.P(20), Lang: g.P(20), Unicode: g.P(50), XMLSafe: true, NoAdjText: true}
	d := adoc.Generate(g, o)
	if g.P(5) {
		// sizes around the usual strategy thresholds: many attributes / own namespace declarations / children
		adoc.ManyAttrs(g, d, rng.Pick(g, []int{5, 8, 9, 12, 16, 17, 33, 40}))
		adoc.ManyDecls(g, d, rng.Pick(g, []int{3, 7, 8, 9, 12, 20}))
		if g.Bool() {
			adoc.Widen(g, d, rng.Pick(g, adoc.Thresholds), true)
		}
		d.Finish()
		r.Count("cases_with_threshold_sizes", 1)
	}
	// XML cannot carry '#' names, empty comments ending in '-', etc.: sanitise
	for _, n := range d.All {
		if strings.ContainsAny(n.Local, "#") {
			n.Local = "h" + strings.ReplaceAll(n.Local, "#", "")
		}
	}
	enc := rng.Pick(g, c09Encodings)
	if enc.fill != 0 {
		// restrict content to what the charset can express
		fix := func(s string) string {
			var sb strings.Builder
			for _, c := range s {
				if c < 128 {
					sb.WriteRune(c)
				} else if enc.enc == nil {
					sb.WriteRune(enc.fill)
				} else if _, err := enc.enc.NewEncoder().String(string(c)); err != nil {
					sb.WriteRune(enc.fill)
				} else {
					sb.WriteRune(c)
				}
			}
			return sb.String()
		}
		for _, n := range d.All {
			n.Value = fix(n.Value)
		}
		if enc.enc != nil && g.P(70) {
			// make sure the decoder is actually exercised
			for _, n := range d.All {
				if n.Kind == adoc.Text && g.P(50) {
					n.Value += string(enc.fill)
				}
			}
		}
	}
	for _, e := range d.Elements() {
		if g.P(4) {
			// explicit (redundant) declaration of the reserved xml prefix, among the other declarations
			e.Decls = append(e.Decls, adoc.Decl{Prefix: "xml", URI: adoc.XMLNS})
			rng.Shuffle(g, e.Decls)
		}
	}
	d.NormalizeNS(g)
	d.Finish()
	shape := d.Shape()
	var lastGood []byte
	for variant := 0; variant < 3; variant++ {
		xo := adoc.XMLOpts{R: g.Sub("ser"), Decl: g.Intn(4), Doctype: g.P(20), CRLF: g.P(20), TopWS: g.P(60)}
		if variant == 0 {
			xo.R = nil // canonical serialisation
		}
		feat := fmt.Sprintf("decl%d dt%v crlf%v ws%v enc=%s", xo.Decl, xo.Doctype, xo.CRLF, xo.TopWS, enc.label)
		text := ""
		var data []byte
		if enc.enc != nil || enc.label == "US-ASCII" {
			if xo.Decl < 2 {
				xo.Decl = 2
			}
			xo.Encoding = enc.label
			text = d.ToXML(xo)
			if enc.enc != nil {
				bs, err := enc.enc.NewEncoder().Bytes([]byte(text))
				if err != nil {
					r.Broken("cannot encode generated text: " + err.Error())
					return
				}
				data = bs
			} else {
				data = []byte(text)
			}
		} else {
			xo.Encoding = enc.label
			text = d.ToXML(xo)
			data = []byte(text)
			if g.P(8) {
				data = append([]byte{0xEF, 0xBB, 0xBF}, data...)
				feat += " bom"
			}
		}
		if oerr := oracleXMLError(data); oerr != nil {
			r.Broken(fmt.Sprintf("generated XML is rejected by encoding/xml: %v\n%s", oerr, text))
			return
		}
		lastGood = data
		root, err := safeReadXml(data)
		r.Eval(1)
		r.Tab("serialisation", fmt.Sprintf("decl%d", xo.Decl), 1)
		r.Tab("encoding", enc.label, 1)
		witness := func(what string) map[string]any {
			return map[string]any{"case": idx, "what": what, "xml": text, "encoding": enc.label, "document": d.Dump()}
		}
		if err != nil {
			r.Violate("wellformed-rejected", witness("ReadXml failed on a well-formed document: "+errStr(err)))
			continue
		}
		if class, what := checkStore(root, d); class != "" {
			r.Violate("datamodel/"+class, witness(what))
			continue
		}
		r.Sig(shape+"|"+feat, len(d.All) >= 3)
		r.Sample("xml", 3, map[string]any{"case": idx, "xml": text, "encoding": enc.label, "nodes": len(d.All)})
	}
	// malformed inputs by mutation of the last good serialisation
	if lastGood == nil {
		return
	}
	nm := 12
	if tier == "thorough" {
		nm = 20
	}
	for i := 0; i < nm; i++ {
		kind, data := mutateXML(g, lastGood)
		oerr := oracleXMLError(data)
		_, err := safeReadXml(data)
		r.Eval(1)
		r.Tab("mutation", kind, 1)
		if err != nil && strings.HasPrefix(err.Error(), "PANIC") {
			r.Violate("malformed/panic", map[string]any{"case": idx, "what": errStr(err), "xml_bytes": fmt.Sprintf("%q", data)})
			continue
		}
		if oerr != nil {
			r.Sig("mut|"+kind+"|"+shape, true)
			r.Count("malformed_inputs", 1)
			if err == nil {
				r.Violate("malformed-accepted/"+kind, map[string]any{"case": idx, "what": fmt.Sprintf("ReadXml returned a tree and a nil error although decoding fails: %v", oerr), "xml_bytes": fmt.Sprintf("%q", data)})
			}
		} else {
			r.Count("mutants_still_wellformed", 1)
		}
	}
}

func mutateXML(g *rng.R, b []byte) (string, []byte) {
	out := append([]byte{}, b...)
	s := string(b)
	switch g.Intn(9) {
	case 0:
		return "truncate", out[:g.Intn(len(out)+1)]
	case 1: // drop an end tag
		if i := strings.LastIndex(s, "</"); i >= 0 {
			j := strings.IndexByte(s[i:], '>')
			if j > 0 {
				return "drop-end-tag", []byte(s[:i] + s[i+j+1:])
			}
		}
	case 2: // mismatch an end tag
		if i := strings.Index(s, "</"); i >= 0 {
			return "mismatch-end-tag", []byte(s[:i+2] + "zz" + s[i+2:])
		}
	case 3:
		if i := strings.IndexByte(s, '>'); i >= 0 && i+1 < len(s) {
			k := i + 1 + g.Intn(len(s)-i-1)
			return "undefined-entity", []byte(s[:k] + "&nope;" + s[k:])
		}
	case 4:
		k := g.Intn(len(out) + 1)
		return "control-char", append(append(append([]byte{}, out[:k]...), byte(g.Range(1, 8))), out[k:]...)
	case 5:
		k := g.Intn(len(out) + 1)
		return "invalid-utf8", append(append(append([]byte{}, out[:k]...), 0xC3, 0x28), out[k:]...)
	case 6:
		if strings.Contains(s, "encoding=") {
			return "bogus-encoding", []byte(strings.Replace(strings.Replace(s, "encoding=\"", "encoding=\"x-nope-", 1), "encoding='", "encoding='x-nope-", 1))
		}
		return "bogus-encoding", append([]byte(`<?xml version="1.0" encoding="x-nope"?>`), out...)
	case 7:
		k := g.Intn(len(out) + 1)
		return "stray-lt", append(append(append([]byte{}, out[:k]...), '<'), out[k:]...)
	case 8:
		if len(out) > 0 {
			k := g.Intn(len(out))
			return "delete-byte", append(append([]byte{}, out[:k]...), out[k+1:]...)
		}
	}
	return "truncate", out[:len(out)/2]
}
