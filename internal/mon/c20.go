package mon

import (
	"bytes"
	"encoding/xml"
	"fmt"
	"mime"
	"os"
	"os/exec"
	"path/filepath"
	"sort"
	"strings"
	"time"

	"github.com/ChrisTrenkamp/xsel"
	"golang.org/x/net/html"

	"xselverif/internal/adoc"
	"xselverif/internal/bridge"
	"xselverif/internal/evid"
	"xselverif/internal/rng"
)

// C20 — the CLI prints exactly the library's result for each input file.

func init() {
	Register(&Monitor{
		ID: "C20",
		Rule: "per case one invocation of the freshly built command on a generated directory tree (nested and empty directories, XML/HTML/JSON files from the document generators, malformed files, unknown extensions, dangling symlinks, a directory named like a file) with a flag set over -a -m -n -r -t -s -v -u -e and an expression of one of the four result types; also stdin mode; " +
			"oracle: stdout must equal, file by file in walk order, the records the monitor computes through the library API on the same bytes with the same decoder options and bindings (nothing for an empty node-set, first node's string-value, one record per node with -a, 'path: ' prefix unless -n or stdin); with -m every record must be one line and, wrapped in a dummy element, must re-parse (by the monitor's own encoding/xml reader) to a tree equal to the selected abstract subtree on expanded names, attribute multisets, merged text, comments and PIs; type selection by -t or the platform media type of the extension as computed by the monitor; directories only with -r; every unreadable, undetectable or unparsable input must produce a stderr line naming it and leave the other files' output unchanged. distinct_nontrivial = distinct (flag set, result type, file-kind mix) with non-empty stdout",
		Assumptions: []string{"stderr is checked for presence and attribution of a diagnostic, not for wording", "attribute and namespace result nodes are printed as processing instructions by design with -m and are only checked to be single-line", "running as root: unreadable files are produced with dangling symlinks"},
		NCases:      func(tier string) int { return map[string]int{"quick": 15000, "thorough": 500000}[tier] },
		Case:        c20Case,
		Pre:         c20Known,
	})
}

type c20File struct {
	rel      string
	data     []byte
	kind     string // xml html json (content kind)
	doc      *adoc.Doc
	bad      string // non-empty: expected to produce a diagnostic and no output ("malformed", "dangling", "unknown-ext")
	symlink  bool
	detected string // parse type the CLI must use
}

var c20Exprs = []struct {
	src, typ string
}{
	{"//*", "node-set"}, {"/*", "node-set"}, {"//a", "node-set"}, {"//@*", "node-set"}, {"//text()", "node-set"}, {"//comment()", "node-set"}, {"//processing-instruction()", "node-set"},
	{"/", "node-set"}, {"//p:*", "node-set"}, {"//*[@id]", "node-set"}, {"//no-such", "node-set"}, {"//*[. = $v]", "node-set"}, {"(//*)[last()]", "node-set"}, {"//*/namespace::*", "node-set"},
	{"string(//a)", "string"}, {"name(/*)", "string"}, {"concat($v, '-', $p:w)", "string"}, {"count(//*)", "number"}, {"sum(//a)", "number"}, {"boolean(//a)", "boolean"}, {"//a = $v", "boolean"},
	{"concat('[', $v, ']')", "string"}, {"string-length($v)", "number"}, {"//*[contains(., $v)]", "node-set"}, {"//@*[. = $v]", "node-set"}, {"string(//ent)", "string"}, {"//ent/@k", "node-set"},
	{"//#obj", "node-set"}, {"//#arr/text()", "node-set"}, {"//body//*", "node-set"},
}

func mediaKind(path string) string {
	media, _, err := mime.ParseMediaType(mime.TypeByExtension(filepath.Ext(path)))
	if err != nil {
		return ""
	}
	switch {
	case strings.Contains(media, "xml"):
		return "xml"
	case strings.Contains(media, "html"):
		return "html"
	case strings.Contains(media, "json"):
		return "json"
	}
	return ""
}

func c20GenFile(g *rng.R, rel, kind string) *c20File {
	f := &c20File{rel: rel, kind: kind}
	switch kind {
	case "xml":
		o := adoc.GenOpts{MinNodes: 2, MaxNodes: 20, NS: g.Intn(3), Misc: true, Unicode: g.P(30), XMLSafe: true, NoAdjText: true, NumericText: g.P(30)}
		d := adoc.Generate(g, o)
		for _, n := range d.All {
			n.Local = strings.ReplaceAll(n.Local, "#", "h")
			// XML vocabularies reuse HTML's element names (RSS <link>, XHTML <meta>, <br>): they are ordinary elements here
			if n.Kind == adoc.Elem && n.Space == "" && g.P(6) {
				n.Local = rng.Pick(g, []string{"link", "meta", "br", "hr", "img", "input", "base", "col", "param", "area", "p", "li", "td", "script", "title"})
			}
		}
		d.NormalizeNS(g)
		d.Finish()
		f.doc = d
		f.data = []byte(d.ToXML(adoc.XMLOpts{R: g.Sub("ser"), Decl: g.Intn(3), TopWS: g.Bool()}))
	case "json":
		v := genJSON(g, 0)
		var sb strings.Builder
		v.render(g, &sb)
		f.data = []byte(sb.String())
	case "html":
		var sb strings.Builder
		sb.WriteString("<!DOCTYPE html>")
		budget := g.Range(2, 15)
		genSoup(g, &sb, 0, 3, &budget)
		f.data = []byte(sb.String())
	}
	return f
}

func c20Case(r *evid.Run, tier string, idx int, g *rng.R) {
	root := filepath.Join(evid.VerifDir, "work", "C20", fmt.Sprintf("case%d", idx))
	os.RemoveAll(root)
	os.MkdirAll(root, 0o755)
	defer os.RemoveAll(root)
	// --- the tree ---
	var files []*c20File
	// directory and file names are data too: '%', blanks, ': ', non-ASCII
	other := rng.Pick(g, []string{"other", "100% done", "o: p", "dïr %s", "%d"})
	dirs := []string{"", "sub", "sub/deep", other, "emptydir"}
	for _, d := range dirs {
		os.MkdirAll(filepath.Join(root, "in", d), 0o755)
	}
	nfiles := g.Range(2, 9)
	exts := map[string][]string{"xml": {".xml", ".xml", ".svg", ".xsl"}, "html": {".html", ".htm"}, "json": {".json"}}
	for i := 0; i < nfiles; i++ {
		kind := rng.Pick(g, []string{"xml", "xml", "xml", "html", "json"})
		ext := rng.Pick(g, exts[kind])
		dir := rng.Pick(g, dirs[:4])
		stem := fmt.Sprintf("f%02d", i)
		if g.P(30) {
			stem += rng.Pick(g, []string{"%", " 50%v", ": x", " y", "é", "%!s", "%%", "%5d"})
		}
		rel := filepath.Join(dir, stem+ext)
		f := c20GenFile(g, rel, kind)
		if kind == "xml" && g.P(20) {
			// a file that references the entity given with -e, in text and in an attribute value
			f.doc = nil
			f.data = []byte(fmt.Sprintf(`<r><ent k="&ent;">one&ent;two</ent><a>%s</a><b id="x&ent;">&ent;</b></r>`, rng.Pick(g, []string{"1", "a", "x y"})))
		}
		switch g.Intn(14) {
		case 0:
			f.bad = "malformed"
			switch kind {
			case "xml":
				f.data = append([]byte("<r><unclosed>"), f.data...)
			case "json":
				f.data = []byte(`{"a": [1, 2`)
			case "html":
				f.data = []byte("<p>no doctype</p>")
			}
		case 1:
			f.rel = strings.TrimSuffix(f.rel, ext) + rng.Pick(g, []string{".dat", ".unknownext", ""})
			f.bad = "unknown-ext"
		case 2:
			f.symlink = true
			f.bad = "dangling"
		}
		files = append(files, f)
	}
	if g.P(30) {
		os.MkdirAll(filepath.Join(root, "in", other, "looks-like.xml"), 0o755) // a directory named like a file
	}
	for _, f := range files {
		p := filepath.Join(root, "in", f.rel)
		if f.symlink {
			os.Symlink(filepath.Join(root, "nowhere", "gone.xml"), p)
		} else {
			os.WriteFile(p, f.data, 0o644)
		}
	}
	// --- flags ---
	ex := rng.Pick(g, c20Exprs)
	flagA, flagM, flagN, flagR, flagU := g.P(40), g.P(30), g.P(30), g.P(60), g.P(15)
	forceT := ""
	if g.P(15) {
		forceT = rng.Pick(g, []string{"xml", "html", "json"})
	}
	// binding values are taken literally: leading/trailing/only white space, '=' inside the value
	vval := rng.Pick(g, []string{"1", "a", "x y", "é", "a ", " a", " ", "1 ", "x\t", "y\n", "z\u00a0", "k=v", ", ", ""})
	entVal := rng.Pick(g, []string{"ENT", "ENT", "E ", " ", "two words ", "\u00a0", " lead", "a=b"})
	qURI := "urn:b"
	if g.P(10) {
		qURI = rng.Pick(g, []string{"urn:b ", " urn:b", "urn:b\n"})
	}
	// flags may come in any order: a prefixed -v before the -s that binds its prefix, -x last, ...
	groups := [][]string{{"-x", ex.src}, {"-s", "p=urn:a"}, {"-s", "q=" + qURI}, {"-v", "v=" + vval}, {"-v", "p:w=W"}, {"-e", "ent=" + entVal}}
	if g.P(60) {
		rng.Shuffle(g, groups)
	}
	var args []string
	for _, gr := range groups {
		args = append(args, gr...)
	}
	if flagA {
		args = append(args, "-a")
	}
	if flagM {
		args = append(args, "-m")
	}
	if flagN {
		args = append(args, "-n")
	}
	if flagR {
		args = append(args, "-r")
	}
	if flagU {
		args = append(args, "-u")
	}
	if forceT != "" {
		args = append(args, "-t", forceT)
	}
	// arguments: the tree root, or a few explicit files/dirs; sometimes stdin
	inRoot := filepath.Join(root, "in")
	var targets []string
	stdinFile := (*c20File)(nil)
	switch g.Intn(5) {
	case 0, 1:
		targets = []string{inRoot}
	case 2:
		for _, f := range files {
			if g.P(60) {
				targets = append(targets, filepath.Join(inRoot, f.rel))
			}
		}
		targets = append(targets, filepath.Join(inRoot, "sub"))
	case 3:
		targets = []string{filepath.Join(inRoot, "sub"), filepath.Join(inRoot, other), filepath.Join(inRoot, "missing.xml")}
	default:
		for _, f := range files {
			if f.bad == "" {
				stdinFile = f
			}
		}
		if stdinFile != nil {
			targets = []string{"-"}
			if forceT == "" {
				forceT = stdinFile.kind
				args = append(args, "-t", forceT)
			}
		} else {
			targets = []string{inRoot}
		}
	}
	if len(targets) == 0 {
		targets = []string{inRoot}
	}
	args = append(args, targets...)
	// --- expectation through the library API ---
	expr, berr := xsel.BuildExpr(ex.src)
	if berr != nil {
		r.Broken("pool expression does not compile: " + ex.src)
		return
	}
	settings := func(c *xsel.ContextSettings) {
		c.NamespaceDecls["p"] = "urn:a"
		c.NamespaceDecls["q"] = qURI
		c.Variables[xsel.XmlName{Local: "v"}] = xsel.String(vval)
		c.Variables[xsel.XmlName{Space: "urn:a", Local: "w"}] = xsel.String("W")
	}
	byPath := map[string]*c20File{}
	for _, f := range files {
		byPath[filepath.Join(inRoot, f.rel)] = f
	}
	var expect bytes.Buffer
	var diagPaths []string
	type mrec struct {
		file *c20File
		node xsel.Cursor
		m    *bridge.Map
	}
	var mrecs []mrec // expected -m records in order
	mode := "first"
	process := func(path string, data []byte, f *c20File, isStdin bool) {
		ptype := forceT
		if ptype == "" {
			ptype = mediaKind(path)
		}
		if ptype == "" {
			diagPaths = append(diagPaths, path)
			return
		}
		var cur xsel.Cursor
		var err error
		switch ptype {
		case "xml":
			cur, err = xsel.ReadXml(bytes.NewReader(data), func(d *xml.Decoder) {
				d.Strict = !flagU
				d.Entity = map[string]string{"ent": entVal}
			})
		case "html":
			cur, err = xsel.ReadHtml(bytes.NewReader(data))
		case "json":
			cur, err = xsel.ReadJson(bytes.NewReader(data))
		}
		if err != nil {
			diagPaths = append(diagPaths, path)
			return
		}
		res, err := xsel.Exec(cur, &expr, settings)
		if err != nil {
			diagPaths = append(diagPaths, path)
			return
		}
		prefix := path + ": "
		if flagN || isStdin {
			prefix = ""
		}
		ns, isSet := res.(xsel.NodeSet)
		switch {
		case isSet && len(ns) == 0:
		case isSet && flagM:
			mode = "xml"
			var m *bridge.Map
			if f != nil && f.doc != nil && ptype == "xml" && !flagU {
				m, _ = bridge.Build(cur, f.doc)
			}
			for _, n := range ns {
				if why := unserialisable(n); why != "" && r.Open("cli-m-unserialisable") {
					// open finding: the encoder refuses the node, a diagnostic is printed and the
					// remaining records of this file are dropped
					r.KnownHit("cli-m-unserialisable", fmt.Sprintf("xsel -m -x %s: %s", ex.src, why))
					diagPaths = append(diagPaths, path)
					break
				}
				mrecs = append(mrecs, mrec{f, n, m})
				expect.WriteString(prefix + "\x00M\n") // placeholder line, compared structurally
			}
		case isSet && flagA:
			mode = "all"
			for _, n := range ns {
				expect.WriteString(prefix + xsel.GetCursorString(n) + "\n")
			}
		default:
			expect.WriteString(prefix + res.String() + "\n")
		}
	}
	var walk func(p string, top bool)
	walk = func(p string, top bool) {
		st, err := os.Lstat(p)
		if err != nil {
			diagPaths = append(diagPaths, p)
			return
		}
		if st.IsDir() {
			if !flagR {
				diagPaths = append(diagPaths, p)
				return
			}
			ents, _ := os.ReadDir(p)
			for _, e := range ents {
				walk(filepath.Join(p, e.Name()), false)
			}
			return
		}
		f := byPath[p]
		data, rerr := os.ReadFile(p)
		if rerr != nil {
			// the CLI detects the type first, then fails to open
			diagPaths = append(diagPaths, p)
			return
		}
		process(p, data, f, false)
	}
	var stdin []byte
	for _, tgt := range targets {
		if tgt == "-" {
			stdin = stdinFile.data
			process("-", stdin, stdinFile, true)
			continue
		}
		walk(tgt, true)
	}
	// --- run the command ---
	cmd := exec.Command(binPath("xsel"), args...)
	var so, se bytes.Buffer
	cmd.Stdout, cmd.Stderr = &so, &se
	if stdin != nil {
		cmd.Stdin = bytes.NewReader(stdin)
	}
	werr := runWithWatchdog(cmd, 10*time.Minute)
	r.Eval(1)
	if werr == errWatchdog {
		r.Inconclusive("CLI hit the watchdog")
		return
	}
	witness := func(what string) map[string]any {
		var listing []string
		for _, f := range files {
			listing = append(listing, fmt.Sprintf("%s [%s %s] %q", f.rel, f.kind, f.bad, trunc(string(f.data))))
		}
		return map[string]any{"case": idx, "what": what, "args": args, "files": listing, "stdout": trunc(so.String()), "stderr": trunc(se.String())}
	}
	if werr != nil {
		r.Violate("exit-status", witness(fmt.Sprintf("the command ended with %v", werr)))
		return
	}
	fkinds := map[string]bool{}
	for _, f := range files {
		fkinds[f.kind+f.bad] = true
	}
	var fk []string
	for k := range fkinds {
		fk = append(fk, k)
	}
	sort.Strings(fk)
	flagSig := fmt.Sprintf("a%v m%v n%v r%v u%v t%s stdin%v", flagA, flagM, flagN, flagR, flagU, forceT, stdin != nil)
	r.Tab("flags", flagSig, 1)
	r.Tab("result_type", ex.typ, 1)
	r.Tab("output_mode", mode, 1)
	// stdout
	gotLines := strings.SplitAfter(so.String(), "\n")
	expLines := strings.SplitAfter(expect.String(), "\n")
	if mode != "xml" {
		if so.String() != expect.String() {
			r.Violate("stdout/"+mode, witness(fmt.Sprintf("stdout differs from the records computed through the library API: got %q, expected %q", trunc(so.String()), trunc(expect.String()))))
			return
		}
	} else {
		// -m: line by line; placeholder lines are checked structurally
		if len(gotLines) != len(expLines) {
			r.Violate("stdout/xml-lines", witness(fmt.Sprintf("with -m the command printed %d lines, expected %d records of one line each", len(gotLines)-1, len(expLines)-1)))
			return
		}
		mi := 0
		for i, el := range expLines {
			if !strings.HasSuffix(el, "\x00M\n") {
				if gotLines[i] != el {
					r.Violate("stdout/xml-mixed", witness(fmt.Sprintf("line %d: got %q, expected %q", i, gotLines[i], el)))
					return
				}
				continue
			}
			prefix := strings.TrimSuffix(el, "\x00M\n")
			rec := mrecs[mi]
			mi++
			gl := gotLines[i]
			if !strings.HasPrefix(gl, prefix) || !strings.HasSuffix(gl, "\n") {
				r.Violate("stdout/xml-prefix", witness(fmt.Sprintf("record %d %q does not carry the prefix %q", i, trunc(gl), prefix)))
				return
			}
			body := strings.TrimSuffix(strings.TrimPrefix(gl, prefix), "\n")
			if msg, known := c20CheckXMLRecord(body, rec.node, rec.m); msg != "" {
				if known != "" && r.Open(known) {
					r.KnownHit(known, trunc(msg))
					continue
				}
				r.Violate("stdout/xml-roundtrip", witness(fmt.Sprintf("-m record %q: %s", trunc(body), msg)))
				return
			}
			r.Count("xml_records_checked", 1)
		}
	}
	// stderr: every bad input must be named
	errText := se.String()
	for _, p := range diagPaths {
		r.Count("diagnostics_expected", 1)
		if p == "-" && strings.Contains(errText, "stdin") {
			continue
		}
		if !strings.Contains(errText, p) {
			r.Violate("stderr/missing-diagnostic", witness(fmt.Sprintf("no stderr line names %s", p)))
			return
		}
	}
	r.Sig(flagSig+"|"+ex.typ+"|"+strings.Join(fk, ","), so.Len() > 0)
	if so.Len() > 0 {
		r.Sample(mode, 2, map[string]any{"case": idx, "args": args[:len(args)-len(targets)], "stdout": trunc(so.String()), "stderr_lines": strings.Count(errText, "\n")})
	}
}

// subtreeOf builds an abstract copy of the subtree under a cursor (names, attribute multiset, merged text).
func cursorToDoc(c xsel.Cursor) *adoc.Doc {
	d := adoc.NewDoc()
	var walk func(c xsel.Cursor, parent *adoc.Node)
	walk = func(c xsel.Cursor, parent *adoc.Node) {
		switch v := c.Node().(type) {
		case xsel.Attribute, xsel.Namespace:
		case xsel.CharData:
			if k := len(parent.Children); k > 0 && parent.Children[k-1].Kind == adoc.Text {
				parent.Children[k-1].Value += v.CharDataValue()
			} else if v.CharDataValue() != "" {
				d.AddText(parent, v.CharDataValue())
			}
		case xsel.Comment:
			d.AddComment(parent, v.CommentValue())
		case xsel.ProcInst:
			d.AddPI(parent, v.Target(), v.ProcInstValue())
		case xsel.Element:
			e := d.AddElem(parent, v.Space(), v.Local())
			for _, a := range c.Attributes() {
				av := a.Node().(xsel.Attribute)
				d.AddAttr(e, av.Space(), av.Local(), av.AttributeValue())
			}
			for _, ch := range c.Children() {
				walk(ch, e)
			}
		default: // root
			for _, ch := range c.Children() {
				walk(ch, parent)
			}
		}
	}
	walk(c, d.Root)
	d.Finish()
	return d
}

func sameSubtree(a, b *adoc.Node) string {
	if a.Kind != b.Kind {
		return fmt.Sprintf("node kinds differ at %s: %s vs %s", a.Path(), a.Kind, b.Kind)
	}
	switch a.Kind {
	case adoc.Text, adoc.Comment:
		if a.Value != b.Value {
			return fmt.Sprintf("%s value %q vs %q", a.Kind, b.Value, a.Value)
		}
	case adoc.PI:
		if a.Local != b.Local || a.Value != b.Value {
			return fmt.Sprintf("PI (%s %q) vs (%s %q)", b.Local, b.Value, a.Local, a.Value)
		}
	case adoc.Elem:
		if a.Space != b.Space || a.Local != b.Local {
			return fmt.Sprintf("element {%s}%s re-parses as {%s}%s", a.Space, a.Local, b.Space, b.Local)
		}
		key := func(n *adoc.Node) []string {
			var ks []string
			for _, x := range n.Attrs {
				ks = append(ks, fmt.Sprintf("{%s}%s=%q", x.Space, x.Local, x.Value))
			}
			sort.Strings(ks)
			return ks
		}
		if ka, kb := key(a), key(b); strings.Join(ka, " ") != strings.Join(kb, " ") {
			return fmt.Sprintf("attributes of %s: %v re-parse as %v", a.Local, ka, kb)
		}
	}
	if len(a.Children) != len(b.Children) {
		return fmt.Sprintf("%s has %d children, re-parsed %d", a.Path(), len(a.Children), len(b.Children))
	}
	for i := range a.Children {
		if msg := sameSubtree(a.Children[i], b.Children[i]); msg != "" {
			return msg
		}
	}
	return ""
}

// c20CheckXMLRecord verifies one -m record against the selected node.
// Returns (message, known-finding id) — empty message means it round-trips.
func c20CheckXMLRecord(body string, node xsel.Cursor, m *bridge.Map) (string, string) {
	if strings.ContainsAny(body, "\n") {
		return "the record spans several lines", ""
	}
	switch node.Node().(type) {
	case xsel.Attribute, xsel.Namespace:
		return "", "" // printed as processing instructions by design: single-line only
	}
	want := cursorToDoc(node)
	got, err := adoc.FromXMLFragment("<w>" + body + "</w>")
	known := ""
	hasNL, hasHash := false, false
	for _, n := range want.All {
		if (n.Kind == adoc.Comment || n.Kind == adoc.PI) && strings.Contains(n.Value, "\n") {
			hasNL = true
		}
		if n.Kind == adoc.Elem && !xmlNameOK(n.Local) {
			hasHash = true
		}
		for _, a := range n.Attrs {
			if !xmlNameOK(a.Local) {
				hasHash = true
			}
		}
	}
	for _, n := range want.All {
		if n.Kind == adoc.Comment && (strings.Contains(n.Value, "--") || strings.HasSuffix(n.Value, "-")) {
			known = "cli-m-comment-dashes"
		}
	}
	for _, n := range want.All {
		vals := []string{n.Value}
		for _, a := range n.Attrs {
			vals = append(vals, a.Value)
		}
		for _, v := range vals {
			for _, c := range v {
				if (c < 0x20 && c != '\t' && c != '\n' && c != '\r') || c == 0xFFFE || c == 0xFFFF {
					known = "cli-m-control-chars"
				}
			}
		}
	}
	if hasNL {
		known = "cli-m-newline-in-comment-pi"
	}
	if hasHash {
		known = "cli-m-hash-names"
	}
	if err != nil {
		return "does not parse as XML: " + err.Error(), known
	}
	w := got.Root.Children[0]
	fake := &adoc.Node{Kind: adoc.Root, Children: w.Children}
	wroot := &adoc.Node{Kind: adoc.Root, Children: want.Root.Children}
	if msg := sameSubtree(wroot, fake); msg != "" {
		return "re-parses to a different tree: " + msg, known
	}
	return "", ""
}

func xmlNameOK(s string) bool {
	if s == "" {
		return false
	}
	for i, c := range s {
		letter := c == '_' || c == ':' || (c >= 'a' && c <= 'z') || (c >= 'A' && c <= 'Z') || c >= 0x80
		other := c == '-' || c == '.' || (c >= '0' && c <= '9')
		if !(letter || (i > 0 && other)) {
			return false
		}
	}
	return true
}

// unserialisable predicts that encoding/xml's Encoder refuses the node the way
// the command writes it (open finding cli-m-unserialisable).
func unserialisable(c xsel.Cursor) string {
	var check func(c xsel.Cursor) string
	check = func(c xsel.Cursor) string {
		switch v := c.Node().(type) {
		case xsel.Attribute:
			return ""
		case xsel.Comment:
			if strings.Contains(v.CommentValue(), "-->") {
				return fmt.Sprintf("comment %q cannot be written as an XML comment", v.CommentValue())
			}
		case xsel.ProcInst:
			if strings.Contains(v.ProcInstValue(), "?>") || !xmlNameOK(v.Target()) {
				return fmt.Sprintf("processing instruction %s %q cannot be written", v.Target(), v.ProcInstValue())
			}
		case xsel.Element, xsel.Root:
			if e, ok := v.(xsel.Element); ok && e.Local() == "" {
				return "an element with an empty name (from an empty JSON key) cannot be written"
			}
			for _, ch := range c.Children() {
				if why := check(ch); why != "" {
					return why
				}
			}
		}
		return ""
	}
	switch v := c.Node().(type) {
	case xsel.Attribute:
		target := "attribute:" + v.Local()
		if v.Space() != "" {
			target = "attribute:" + v.Space() + ":" + v.Local()
		}
		if !xmlNameOK(target) || strings.Contains(v.AttributeValue(), "?>") {
			return fmt.Sprintf("attribute {%s}%s is written as the processing instruction target %q, which is not an XML name", v.Space(), v.Local(), target)
		}
		return ""
	case xsel.Namespace:
		if !xmlNameOK("namespace:"+v.Prefix()) || strings.Contains(v.NamespaceValue(), "?>") {
			return "namespace node cannot be written as a processing instruction"
		}
		return ""
	}
	return check(c)
}

// c20Known replays the witnesses of the open CLI findings.
func c20Known(r *evid.Run, tier string) {
	dir := filepath.Join(evid.VerifDir, "work", "C20", "known")
	os.MkdirAll(dir, 0o755)
	defer os.RemoveAll(dir)
	type wit struct {
		id, file, data, expr string
	}
	for _, w := range []wit{
		{"cli-m-newline-in-comment-pi", "w.xml", "<r><!--a\nb--></r>", "//comment()"},
		{"cli-m-hash-names", "w.json", `{"a":[1]}`, "//a"},
		{"cli-m-control-chars", "c.json", `{"a":"x\u0001y"}`, "//a"},
		{"cli-m-comment-dashes", "w.html", "<!DOCTYPE html><p><!--a--b--></p>", "//comment()"},
		{"cli-m-unserialisable", "u.xml", `<r xmlns:z="http://x.y/z" id="1" z:k="v"><a/></r>`, "//@*|//a"},
	} {
		if !r.Open(w.id) {
			continue
		}
		p := filepath.Join(dir, w.file)
		os.WriteFile(p, []byte(w.data), 0o644)
		out, err := exec.Command(binPath("xsel"), "-x", w.expr, "-m", "-n", p).Output()
		if err != nil {
			continue
		}
		if w.id == "cli-m-unserialisable" {
			if n := strings.Count(string(out), "\n"); n < 3 {
				r.KnownHit(w.id, fmt.Sprintf("xsel -m -x %s on %q prints %d of 3 records", w.expr, w.data, n))
			}
			continue
		}
		body := strings.TrimSuffix(string(out), "\n")
		var cur xsel.Cursor
		if strings.HasSuffix(w.file, ".json") {
			cur, _ = xsel.ReadJson(strings.NewReader(w.data))
		} else if strings.HasSuffix(w.file, ".html") {
			cur, _ = xsel.ReadHtml(strings.NewReader(w.data))
		} else {
			cur, _ = xsel.ReadXml(strings.NewReader(w.data))
		}
		g := xsel.MustBuildExpr(w.expr)
		ns, _ := xsel.ExecAsNodeset(cur, &g)
		if len(ns) != 1 {
			continue
		}
		if msg, _ := c20CheckXMLRecord(body, ns[0], nil); msg != "" {
			r.KnownHit(w.id, fmt.Sprintf("xsel -m -x %s on %q prints %q: %s", w.expr, w.data, body, trunc(msg)))
		}
	}
}

var _ = html.Parse
