package mon

// SelfTest checks the reference model against worked examples from the XPath
// 1.0 recommendation and hand-computed cases. A failure makes every check
// exit 2 (broken), never 1.
func SelfTest(verbose bool) int {
	return selfTestImpl(verbose)
}
