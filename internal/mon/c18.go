package mon

import (
	"fmt"

	"github.com/ChrisTrenkamp/xsel"

	"xselverif/internal/adoc"
	"xselverif/internal/bridge"
	"xselverif/internal/evid"
	"xselverif/internal/refeval"
	"xselverif/internal/rng"
	"xselverif/internal/xast"
)

// C18 — sub-queries from any node compose like steps inside one query.

func init() {
	Register(&Monitor{
		ID: "C18",
		Rule: "per generated document: (a) every split of generated multi-step paths into prefix P / suffix R (all axes, predicates, reverse axes leaving the subtree): identity-set equality of Exec(root,'P/R') with the union over n in Exec(root,P) of Exec(n,R) — library vs library — and with the reference model; " +
			"(b) Exec(n, R) for every node n of every kind (element, attribute, namespace, text, comment, PI, root) x relative expressions vs the model with context (n,1,1); (c) position() and last() as whole expressions from every start node; (b') the same with fewer bindings than the document has declarations: a prefix the query does not bind is an error from every start node; " +
			"(e) the same composition for prefixes that mix elements with their own attribute and namespace nodes — parenthesised unions (A | A/@* | A//@*) and node-set variables held in document, reverse and shuffled order — continued with /R and //R; (d) P/f() vs f(P) for f in {string, number, name, local-name, namespace-uri, string-length, normalize-space}. distinct_nontrivial = distinct (document shape, expression, split point / start-node kind) with a non-empty result",
		Assumptions: []string{"function-call steps are generated only as zero-argument context-dependent builtins (the form the statement covers)", "absolute paths inside R are not generated (root of a sub-query is ambiguous)"},
		NCases:      func(tier string) int { return map[string]int{"quick": 2500, "thorough": 20000}[tier] },
		Case:        c18Case,
	})
}

var c18FnSteps = []string{"string", "number", "name", "local-name", "namespace-uri", "string-length", "normalize-space"}

func c18Case(r *evid.Run, tier string, idx int, g *rng.R) {
	o := adoc.GenOpts{MinNodes: 6, MaxNodes: 40, NS: g.Intn(3), Misc: g.P(60), Weird: g.P(15), NumericText: g.P(30)}
	d := adoc.Generate(g, o)
	if idx%25 == 11 {
		// a wide element and an element with many attributes: sizes around the usual strategy thresholds
		ws := adoc.Thresholds[:8]
		// (the same widths in both tiers: nested predicates over the sibling axes of a w-wide element cost up to w^4)
		adoc.Widen(g, d, rng.Pick(g, ws), false)
		adoc.ManyAttrs(g, d, rng.Pick(g, []int{5, 9, 12, 16, 17, 40}))
		d.Finish()
		r.Count("cases_with_wide_elements", 1)
	}
	w, err := newWorld(d)
	if err == nil && idx%4 == 3 {
		// every fourth case runs the evaluator on the independent Cursor implementation (R-ref)
		w, err = newRefWorld(d)
		r.Count("cases_on_reference_cursor", 1)
		if err == nil && idx%8 == 7 {
			// identity of nodes is Pos(): this view hands out a fresh cursor value on every access
			w.lazy = true
			r.Count("cases_on_lazily_allocated_cursors", 1)
		}
	}
	if err != nil {
		r.Inconclusive("store tree mismatch: " + err.Error())
		return
	}
	shape := d.Shape()
	rootC := w.m.Root
	if w.lazy {
		rootC = bridge.LazyOf(rootC)
	}
	elems, attrs, targets := vocab(d)
	axes := append(append([]string{}, xast.Axes...), "child", "child", "child", "descendant")
	cfg := &xast.Cfg{Elems: elems, Attrs: attrs, Prefixes: []string{"p", "q"}, Targets: targets, Axes: axes,
		MaxSteps: 4, MaxDepth: 1, PredPct: 30, Abbrev: 40, Funcs: c02Funcs, StrLits: []string{"1", "a"}}
	gen := &xast.Gen{R: g, C: cfg}
	// positional predicates directly on attribute/namespace steps are order-dependent but
	// consistent between split and unsplit evaluation; they stay in for (a), and the model
	// takes the order from the store.

	n := 12
	if tier == "thorough" {
		n = 25
	}
	// (a) splits
	for i := 0; i < n; i++ {
		full := gen.AbsPath(0)
		if len(full.Steps) < 2 {
			continue
		}
		whole, wok := w.check(r, "split/whole", idx, d.Root, full, false)
		if !wok {
			continue
		}
		wholeSet, _ := whole.(refeval.NodeSet)
		for cut := 1; cut < len(full.Steps); cut++ {
			if full.Steps[cut-1].DSlash && cut-1 == 0 {
				continue // prefix would be the bare '//' pseudo step
			}
			P := xast.Path{Abs: true, Steps: append([]xast.Step{}, full.Steps[:cut]...)}
			R := xast.Path{Steps: append([]xast.Step{}, full.Steps[cut:]...)}
			// a DSlash step at the edge is rendered explicitly by the renderer
			pres, perr := ExecStr(rootC, xast.String(P), w.opts...)
			r.Eval(1)
			if perr != nil {
				r.Violate("split/prefix-error", map[string]any{"case": idx, "what": fmt.Sprintf("%s fails (%s) although %s succeeds", xast.String(P), errStr(perr), xast.String(full)), "document": d.Dump()})
				continue
			}
			pns, ok := pres.(xsel.NodeSet)
			if !ok {
				continue
			}
			acc := map[*adoc.Node]bool{}
			bad := false
			rs := xast.String(R)
			for _, c := range pns {
				sub, serr := ExecStr(c, rs, w.opts...)
				r.Eval(1)
				if serr != nil {
					r.Violate("split/suffix-error", map[string]any{"case": idx, "what": fmt.Sprintf("Exec(%s, %s) fails: %s", w.m.ToA[bridge.Canon(c)].Path(), rs, errStr(serr)), "document": d.Dump()})
					bad = true
					break
				}
				sns, ok := sub.(xsel.NodeSet)
				if !ok {
					bad = true
					break
				}
				as, aerr := w.m.Nodes(sns)
				if aerr != nil {
					r.Violate("split/foreign-node", map[string]any{"case": idx, "what": aerr.Error(), "document": d.Dump()})
					bad = true
					break
				}
				for _, a := range as {
					acc[a] = true
				}
			}
			if bad {
				continue
			}
			r.Count("splits_checked", 1)
			same := len(acc) == len(wholeSet)
			for _, a := range wholeSet {
				if !acc[a] {
					same = false
				}
			}
			if !same {
				var union []*adoc.Node
				for a := range acc {
					union = append(union, a)
				}
				r.Violate("split/compose", map[string]any{"case": idx,
					"what":     fmt.Sprintf("Exec(root, %s) = %s but the union of Exec(n, %s) over n in Exec(root, %s) = %s", xast.String(full), bridge.Show(whole), rs, xast.String(P), bridge.Show(refeval.NodeSet(adoc.SortDoc(union)))),
					"document": d.Dump()})
				continue
			}
			r.Sig(fmt.Sprintf("%s|%s|cut%d", shape, xast.String(full), cut), len(wholeSet) > 0)
			if len(wholeSet) > 0 {
				r.Sample("split", 3, map[string]any{"case": idx, "P": xast.String(P), "R": rs, "prefix_nodes": len(pns), "result_nodes": len(wholeSet), "document": d.Dump()})
			}
		}
	}
	// (e) prefixes that mix elements with their own attribute / namespace nodes (parenthesised unions,
	// node-set variables in document, reverse and shuffled order) continued with '/' and '//'
	var mixPool []*adoc.Node
	for _, x := range d.All {
		if g.P(35) {
			mixPool = append(mixPool, x)
		}
	}
	mixSet := refeval.NodeSet(adoc.SortDoc(mixPool))
	mixFwd := w.m.Lib(mixSet).(xsel.NodeSet)
	mixRev := make(xsel.NodeSet, len(mixFwd))
	for i := range mixFwd {
		mixRev[len(mixFwd)-1-i] = mixFwd[i]
	}
	mixShuf := append(xsel.NodeSet{}, mixFwd...)
	rng.Shuffle(g, mixShuf)
	w.env.Vars = map[refeval.Name]refeval.Value{{Local: "mix"}: mixSet, {Local: "mixrev"}: mixSet, {Local: "mixshuf"}: mixSet}
	mixBind := []xsel.ContextApply{xsel.WithVariable("mix", mixFwd), xsel.WithVariable("mixrev", mixRev), xsel.WithVariable("mixshuf", mixShuf)}
	tails := []xast.Path{
		xast.Rel(xast.S("self", xast.NodeT())), xast.Rel(xast.Step{Axis: "self", Test: xast.NodeT(), Abbrev: true}),
		xast.Rel(xast.S("ancestor-or-self", xast.NodeT(), xast.N(1))), xast.Rel(xast.S("following", xast.AnyT(), xast.N(1))),
		xast.Rel(xast.S("self", xast.NodeT(), xast.Fn("not", xast.Rel(xast.S("self", xast.AnyT()))))), xast.Rel(xast.S("parent", xast.AnyT())),
	}
	for i := 0; i < n; i++ {
		var head xast.Expr
		switch g.Intn(5) {
		case 0:
			head = xast.Var{Local: "mix"}
		case 1:
			head = xast.Var{Local: rng.Pick(g, []string{"mixrev", "mixshuf"})}
		default:
			a := gen.AbsPath(1)
			extra := xast.Step{Axis: "attribute", Test: xast.AnyT(), Abbrev: g.Bool()}
			if g.P(30) {
				extra = xast.S("namespace", xast.AnyT())
			}
			b := a
			b.Steps = append(append([]xast.Step{}, a.Steps...), extra)
			var u xast.Expr = xast.Binary{Op: "|", L: a, R: b}
			if g.P(30) {
				c := a
				c.Steps = append(append([]xast.Step{}, a.Steps...), xast.DS(), xast.Step{Axis: "attribute", Test: xast.AnyT(), Abbrev: true})
				u = xast.Binary{Op: "|", L: u, R: c}
			}
			head = xast.Paren{X: u}
		}
		tail := rng.Pick(g, tails)
		if g.P(40) {
			tail = gen.RelPath(1)
		}
		dslash := g.P(65)
		full := xast.Path{Head: head}
		if dslash {
			full.Steps = append(full.Steps, xast.DS())
		}
		full.Steps = append(full.Steps, tail.Steps...)
		whole, wok := w.check(r, "mixed-prefix/whole", idx, d.Root, full, false, mixBind...)
		if !wok {
			continue
		}
		wholeSet, _ := whole.(refeval.NodeSet)
		// the same through sub-queries: Exec(root, head) then Exec(n, [.//]tail) from every node
		pres, perr := ExecStr(rootC, xast.String(xast.Path{Head: head}), append(append([]xsel.ContextApply{}, w.opts...), mixBind...)...)
		pns, isSet := pres.(xsel.NodeSet)
		r.Eval(1)
		if perr != nil || !isSet {
			// a bare variable reference or parenthesised union is always a node-set here
			r.Violate("mixed-prefix/prefix-error", map[string]any{"case": idx, "what": fmt.Sprintf("%s fails (%s) although %s succeeds", xast.String(head), errStr(perr), xast.String(full)), "document": d.Dump()})
			continue
		}
		sub := xast.Path{Steps: tail.Steps}
		if dslash {
			sub.Steps = append([]xast.Step{xast.S("descendant-or-self", xast.NodeT())}, tail.Steps...)
		}
		subs := xast.String(sub)
		acc := map[*adoc.Node]bool{}
		bad := false
		kinds := map[string]bool{}
		for _, c := range pns {
			kinds[w.m.ToA[bridge.Canon(c)].Kind.String()] = true
			res, serr := ExecStr(c, subs, w.opts...)
			r.Eval(1)
			sns, ok := res.(xsel.NodeSet)
			if serr != nil || !ok {
				r.Violate("mixed-prefix/suffix-error", map[string]any{"case": idx, "what": fmt.Sprintf("Exec(%s, %s) fails: %s", w.m.ToA[bridge.Canon(c)].Path(), subs, errStr(serr)), "document": d.Dump()})
				bad = true
				break
			}
			as, aerr := w.m.Nodes(sns)
			if aerr != nil {
				bad = true
				break
			}
			for _, a := range as {
				acc[a] = true
			}
		}
		if bad {
			continue
		}
		r.Count("mixed_prefix_compositions", 1)
		same := len(acc) == len(wholeSet)
		for _, a := range wholeSet {
			if !acc[a] {
				same = false
			}
		}
		if !same {
			var union []*adoc.Node
			for a := range acc {
				union = append(union, a)
			}
			r.Violate("mixed-prefix/compose", map[string]any{"case": idx,
				"what":     fmt.Sprintf("Exec(root, %s) = %s but the union of Exec(n, %s) over n in Exec(root, %s) = %s", xast.String(full), bridge.Show(whole), subs, xast.String(head), bridge.Show(refeval.NodeSet(adoc.SortDoc(union)))),
				"document": d.Dump()})
			continue
		}
		r.Sig(fmt.Sprintf("%s|%s|mixed", shape, xast.String(full)), len(wholeSet) > 0 && len(kinds) > 1)
		if len(wholeSet) > 0 && len(kinds) > 1 {
			r.Sample("mixed-prefix", 2, map[string]any{"case": idx, "expr": xast.String(full), "prefix_nodes": len(pns), "result_nodes": len(wholeSet)})
		}
	}
	// (b) relative expressions from every node of every kind
	var rels []xast.Expr
	for i := 0; i < n; i++ {
		rels = append(rels, gen.RelPath(0))
	}
	rels = append(rels,
		xast.Rel(xast.S("parent", xast.NodeT()), xast.S("following-sibling", xast.NodeT())),
		xast.Rel(xast.S("ancestor", xast.AnyT()), xast.Step{Axis: "attribute", Test: xast.AnyT(), Abbrev: true}),
		xast.Rel(xast.S("preceding", xast.NodeT())),
		xast.Fn("count", xast.Rel(xast.S("ancestor-or-self", xast.NodeT()))),
		xast.Fn("string", xast.Rel(xast.Step{Axis: "self", Test: xast.NodeT(), Abbrev: true})),
		xast.Fn("position"), xast.Fn("last"),
		xast.Binary{Op: "=", L: xast.Fn("position"), R: xast.Fn("last")},
	)
	starts := d.All
	if len(starts) > 120 {
		// wide documents: a sample of start nodes (every expression from every node would be quadratic in the width)
		starts = nil
		for _, node := range d.All {
			if node.Kind == adoc.Root || g.P(8) {
				starts = append(starts, node)
			}
		}
	}
	for _, node := range starts {
		for _, e := range rels {
			v, ok := w.check(r, "from-node/"+node.Kind.String(), idx, node, e, false)
			r.Tab("start_kind", node.Kind.String(), 1)
			if ok {
				nt := false
				switch x := v.(type) {
				case refeval.NodeSet:
					nt = len(x) > 0
				default:
					nt = true
				}
				r.Sig(fmt.Sprintf("%s|%s|from:%s", shape, xast.String(e), node.Kind), nt)
			}
		}
	}
	// (b') the names a sub-query may use are those of the query's bindings, wherever it starts: with
	// only p bound, q:... and r:... are errors from every node (also below an xmlns:q declaration),
	// exactly as for the query started at the root
	{
		few := map[string]string{"p": canonNS["p"], "xml": adoc.XMLNS}
		w2 := *w
		w2.env = &refeval.Env{Doc: d, NS: few}
		w2.opts = nsOpts(few)
		var qn []xast.QN
		for _, e := range elems {
			if e.Prefix == "q" || e.Prefix == "r" {
				qn = append(qn, e)
			}
		}
		qn = append(qn, xast.QN{Prefix: "q", Local: "a"})
		for _, node := range d.All {
			if !g.P(40) {
				continue
			}
			q := rng.Pick(g, qn)
			for _, e := range []xast.Expr{
				xast.Rel(xast.Step{Axis: "child", Test: xast.NameT(q.Prefix, q.Local), Abbrev: true}),
				xast.Rel(xast.S("descendant-or-self", xast.Test{Kind: xast.TNSAny, Prefix: q.Prefix})),
				xast.Fn("count", xast.Rel(xast.S("ancestor-or-self", xast.NameT(q.Prefix, q.Local)))),
				xast.Rel(xast.Step{Axis: "attribute", Test: xast.NameT(q.Prefix, "id"), Abbrev: true}),
				xast.Rel(xast.Step{Axis: "child", Test: xast.NameT("p", q.Local), Abbrev: true}),
			} {
				if _, ok := w2.check(r, "from-node/unbound-prefix", idx, node, e, false); ok {
					r.Tab("start_kind", "unbound-prefix from "+node.Kind.String(), 1)
				}
			}
		}
	}
	// (d) P/f() == f(P)
	cfg.PredPct = 15
	for i := 0; i < n; i++ {
		P := gen.AbsPath(0)
		f := rng.Pick(g, c18FnSteps)
		asStep := P
		asStep.Steps = append(append([]xast.Step{}, P.Steps...), xast.Step{Fn: &xast.Call{Local: f}})
		asArg := xast.Fn(f, P)
		a, _, ea := w.libEval(d.Root, xast.String(asStep))
		b, _, eb := w.libEval(d.Root, xast.String(asArg))
		r.Eval(2)
		r.Count("fn_step_checks", 1)
		if (ea != nil) != (eb != nil) || (ea == nil && !bridge.Equal(a, b, false)) {
			r.Violate("fn-step", map[string]any{"case": idx, "what": fmt.Sprintf("%s = %s (%v) but %s = %s (%v)", xast.String(asStep), bridge.Show(a), errStr(ea), xast.String(asArg), bridge.Show(b), errStr(eb)), "document": d.Dump()})
			continue
		}
		if v, ok := w.check(r, "fn-step/model", idx, d.Root, asStep, false); ok {
			nt := false
			if s, isStr := v.(string); isStr && s != "" {
				nt = true
			}
			if f, isNum := v.(float64); isNum && f == f && f != 0 {
				nt = true
			}
			r.Sig(fmt.Sprintf("%s|%s|fnstep", shape, xast.String(asStep)), nt)
			if nt {
				r.Sample("fn-step", 2, map[string]any{"case": idx, "step_form": xast.String(asStep), "arg_form": xast.String(asArg), "value": bridge.Show(v)})
			}
		}
	}
}
