package mon

import (
	"bytes"
	"encoding/json"
	"fmt"
	"io"
	"math"
	"strconv"
	"strings"

	"github.com/ChrisTrenkamp/xsel"
	"github.com/ChrisTrenkamp/xsel/node"
	"github.com/ChrisTrenkamp/xsel/parser"
	"github.com/ChrisTrenkamp/xsel/store"

	"xselverif/internal/adoc"
	"xselverif/internal/evid"
	"xselverif/internal/rng"
)

// C16 — ReadJson maps JSON to the documented #obj/#arr element tree.

func init() {
	Register(&Monitor{
		ID: "C16",
		Rule: "per case a random JSON text (objects/arrays nested to depth 30, one case in forty wrapped in a further 31..300 levels of objects and arrays, empty containers in every position, duplicate/empty/odd keys, scalars of every kind at top level and inside, several concatenated top-level values) rendered with random whitespace, string escapes and number spellings (one case in twelve with the first of several top-level values ending exactly on byte 512) -> xsel.ReadJson, once from a reader that delivers everything in one Read and once piecewise (pseudo-random chunks of 1..23 bytes / one byte per Read / a Read ending after every closing brace or bracket / a seekable reader the caller has positioned after a header of its own; malformed inputs use one of the four patterns chosen by their content); oracle: direct recursive mapping written from the README (#obj/#arr, one element per member named by the key, one text node per scalar, siblings never merged) compared by parallel walk plus the C10 structural invariants, numbers accepted iff they read back to the same double with the minimal number of significant digits; " +
			"malformed: every proper prefix of the rendering (capped) plus single-token deletions/insertions: whenever encoding/json's Decoder.Decode loop rejects the bytes as a sequence of complete values, ReadJson must return a non-nil error. distinct_nontrivial = distinct value-shape signatures and distinct (malformation kind, shape)",
		NCases: func(tier string) int { return map[string]int{"quick": 50000, "thorough": 3000000}[tier] },
		Case:   c16Case,
	})
}

type jval struct {
	kind  byte // o a s n t f z
	keys  []string
	items []*jval
	str   string
	num   float64
	spell string
}

var jsonKeys = []string{"a", "b", "states", "id", "", "a b", "#obj", "x-1", "é", "k\"q", "a/b", "0", "true", "a", "a"}

func genJSON(g *rng.R, depth int) *jval {
	k := g.Intn(12)
	if depth > 30 || (depth > 3 && g.P(60)) {
		k = 4 + g.Intn(8)
	}
	switch k {
	case 0, 1:
		v := &jval{kind: 'o'}
		for i := g.Range(0, 4); i > 0; i-- {
			v.keys = append(v.keys, rng.Pick(g, jsonKeys))
			v.items = append(v.items, genJSON(g, depth+1))
		}
		return v
	case 2, 3:
		v := &jval{kind: 'a'}
		for i := g.Range(0, 4); i > 0; i-- {
			v.items = append(v.items, genJSON(g, depth+1))
		}
		return v
	case 4, 5:
		return &jval{kind: 's', str: rng.Pick(g, []string{"", "AK", "MD", "a b", " ", "é", "😀", "\"", "\\", "\n", "\u0001", "</x>", "12", "null", "x\ty"})}
	case 6, 7, 8:
		n := &jval{kind: 'n'}
		switch g.Intn(8) {
		case 0:
			n.num = float64(g.Range(-1000, 1000))
		case 1:
			n.num = float64(g.Range(-1000, 1000)) / 8
		case 2:
			n.num = rng.Pick(g, []float64{0, 1e21, 1e20, 1e-7, 1e-6, 0.1, 1.5e300, 5e-324, 123456789012345680000, 1e22, -1e21, 9007199254740993, 0.000001234})
		case 3:
			n.num = g.F01()
		case 4:
			n.spell = rng.Pick(g, []string{"1.0", "1e0", "1E+2", "100e-2", "-0", "-0.0", "0.10", "1.50e1", "12e3", "0e0"})
			n.num, _ = strconv.ParseFloat(n.spell, 64)
		default:
			n.num = float64(g.Intn(100))
		}
		if math.IsInf(n.num, 0) || math.IsNaN(n.num) {
			n.num = 1
		}
		return n
	case 9:
		return &jval{kind: 't'}
	case 10:
		return &jval{kind: 'f'}
	}
	return &jval{kind: 'z'}
}

func (v *jval) shape(sb *strings.Builder) {
	sb.WriteByte(v.kind)
	if v.kind == 'o' || v.kind == 'a' {
		sb.WriteByte('(')
		for _, it := range v.items {
			it.shape(sb)
		}
		sb.WriteByte(')')
	}
}

func jws(g *rng.R) string {
	if g.P(70) {
		return ""
	}
	return rng.Pick(g, []string{" ", "\n", "\t", "\r\n", "  "})
}

func jstr(g *rng.R, s string) string {
	var sb strings.Builder
	sb.WriteByte('"')
	for _, c := range s {
		switch {
		case c == '"':
			sb.WriteString(`\"`)
		case c == '\\':
			sb.WriteString(`\\`)
		case c == '\n':
			sb.WriteString(`\n`)
		case c == '\t':
			sb.WriteString(`\t`)
		case c < 0x20:
			fmt.Fprintf(&sb, `\u%04x`, c)
		case c == '/' && g.P(30):
			sb.WriteString(`\/`)
		case c < 0x10000 && g.P(10):
			fmt.Fprintf(&sb, `\u%04X`, c)
		default:
			sb.WriteRune(c)
		}
	}
	sb.WriteByte('"')
	return sb.String()
}

func (v *jval) render(g *rng.R, sb *strings.Builder) {
	switch v.kind {
	case 'o':
		sb.WriteString("{" + jws(g))
		for i, it := range v.items {
			if i > 0 {
				sb.WriteString("," + jws(g))
			}
			sb.WriteString(jstr(g, v.keys[i]) + jws(g) + ":" + jws(g))
			it.render(g, sb)
			sb.WriteString(jws(g))
		}
		sb.WriteString("}")
	case 'a':
		sb.WriteString("[" + jws(g))
		for i, it := range v.items {
			if i > 0 {
				sb.WriteString("," + jws(g))
			}
			it.render(g, sb)
			sb.WriteString(jws(g))
		}
		sb.WriteString("]")
	case 's':
		sb.WriteString(jstr(g, v.str))
	case 'n':
		if v.spell != "" {
			sb.WriteString(v.spell)
		} else {
			sb.WriteString(strconv.FormatFloat(v.num, rng.Pick(g, []byte{'g', 'f', 'e'}), -1, 64))
		}
	case 't':
		sb.WriteString("true")
	case 'f':
		sb.WriteString("false")
	case 'z':
		sb.WriteString("null")
	}
}

// mapJSON is the README mapping.
func mapJSON(d *adoc.Doc, parent *adoc.Node, v *jval, nums map[*adoc.Node]float64) {
	el := func(p *adoc.Node, name string) *adoc.Node {
		e := d.AddElem(p, "", name)
		e.NoXMLNS = true
		return e
	}
	switch v.kind {
	case 'o':
		o := el(parent, "#obj")
		for i, it := range v.items {
			m := el(o, v.keys[i])
			mapJSON(d, m, it, nums)
		}
	case 'a':
		a := el(parent, "#arr")
		for _, it := range v.items {
			mapJSON(d, a, it, nums)
		}
	case 's':
		d.AddText(parent, v.str)
	case 'n':
		t := d.AddText(parent, strconv.FormatFloat(v.num, 'g', -1, 64))
		nums[t] = v.num
	case 't':
		d.AddText(parent, "true")
	case 'f':
		d.AddText(parent, "false")
	case 'z':
		d.AddText(parent, "null")
	}
}

// sigDigits counts the digits of the mantissa that carry information: leading
// zeros never count, trailing zeros count when they follow a decimal point
// ("1.0" has two digits, "100" one).
func sigDigits(s string) int {
	s = strings.TrimPrefix(s, "-")
	if i := strings.IndexAny(s, "eE"); i >= 0 {
		s = s[:i]
	}
	hasDot := strings.Contains(s, ".")
	s = strings.Replace(s, ".", "", 1)
	s = strings.TrimLeft(s, "0")
	if !hasDot {
		s = strings.TrimRight(s, "0")
	}
	return len(s)
}

func acceptJSONNumber(t string, v float64) bool {
	f, err := strconv.ParseFloat(t, 64)
	if err != nil || f != v {
		return false
	}
	return sigDigits(t) == sigDigits(strconv.FormatFloat(v, 'e', -1, 64))
}

// patchNumbers walks both trees and adopts the library's spelling of a number
// text node when it is acceptable; structure mismatches are left to checkStore.
func patchNumbers(c xsel.Cursor, a *adoc.Node, nums map[*adoc.Node]float64) {
	if v, ok := nums[a]; ok {
		if cd, ok := c.Node().(node.CharData); ok && acceptJSONNumber(cd.CharDataValue(), v) {
			a.Value = cd.CharDataValue()
		}
		return
	}
	cs := c.Children()
	if len(cs) != len(a.Children) {
		return
	}
	for i := range cs {
		patchNumbers(cs[i], a.Children[i], nums)
	}
}

func oracleJSONError(b []byte) error {
	dec := json.NewDecoder(bytes.NewReader(b))
	for {
		var v any
		err := dec.Decode(&v)
		if err == io.EOF {
			return nil
		}
		if err != nil {
			return err
		}
	}
}

// safeReadJson reads b through a reader whose delivery pattern is determined by the content
// (whole / chunks / single bytes / Reads ending after closers).
func safeReadJson(b []byte) (c xsel.Cursor, err error) {
	return safeReadJsonMode(b, contentMode(b))
}

func safeReadJsonMode(b []byte, mode int) (c xsel.Cursor, err error) {
	defer func() {
		if p := recover(); p != nil {
			c, err = nil, fmt.Errorf("PANIC escaped ReadJson: %v", p)
		}
	}()
	rd, _ := hostileReader(b, mode)
	return xsel.ReadJson(rd)
}

// c16Alternating: two JSON parsers pulled alternately, one event each.
func c16Alternating(r *evid.Run, idx int, g *rng.R) {
	var texts [2]string
	var docs [2]*adoc.Doc
	var nums [2]map[*adoc.Node]float64
	for k := 0; k < 2; k++ {
		v := genJSON(g, 0)
		var sb strings.Builder
		v.render(g, &sb)
		texts[k] = sb.String()
		docs[k] = adoc.NewDoc()
		nums[k] = map[*adoc.Node]float64{}
		mapJSON(docs[k], docs[k].Root, v, nums[k])
		docs[k].Finish()
	}
	ra, rb, ea, eb := buildAlternating(parser.ReadJson(strings.NewReader(texts[0])), parser.ReadJson(strings.NewReader(texts[1])))
	r.Eval(2)
	r.Count("alternating_parser_pairs", 1)
	for k, t := range []struct {
		root store.Cursor
		err  error
	}{{ra, ea}, {rb, eb}} {
		if t.err != nil {
			r.Violate("alternating/error", map[string]any{"case": idx, "what": fmt.Sprintf("text %d of two JSON texts parsed alternately: %v", k, t.err), "json": texts[k]})
			continue
		}
		patchNumbers(t.root, docs[k].Root, nums[k])
		if class, what := checkStore(t.root, docs[k]); class != "" {
			r.Violate("alternating/"+class, map[string]any{"case": idx, "what": fmt.Sprintf("text %d of two JSON texts parsed alternately: %s", k, what), "json": texts[k], "other_json": texts[1-k]})
		}
	}
}

func c16Case(r *evid.Run, tier string, idx int, g *rng.R) {
	if idx%30 == 11 {
		c16Alternating(r, idx, g)
		return
	}
	var tops []*jval
	ntop := 1
	if g.P(20) {
		ntop = g.Range(0, 3)
	}
	d := adoc.NewDoc()
	nums := map[*adoc.Node]float64{}
	var sb, shape strings.Builder
	// one case in twelve: several top-level values, the first one padded so that its last byte is
	// byte 512 of the text (the size of encoding/json's first Read)
	boundary := g.P(8)
	if boundary {
		ntop = g.Range(2, 3)
	}
	for i := 0; i < ntop; i++ {
		v := genJSON(g, 0)
		if idx%40 == 9 && i == 0 {
			// deep nesting around the value: objects and arrays in a random mix, depths around the
			// sizes of fixed-width level bookkeeping
			for k := rng.Pick(g, []int{31, 32, 33, 63, 64, 65, 66, 70, 130, 300}); k > 0; k-- {
				if g.P(60) {
					w := &jval{kind: 'o', keys: []string{rng.Pick(g, jsonKeys)}, items: []*jval{v}}
					if g.P(20) {
						w.keys = append(w.keys, "z")
						w.items = append(w.items, &jval{kind: 's', str: "s"})
					}
					v = w
				} else {
					v = &jval{kind: 'a', items: []*jval{v}}
				}
			}
			r.Count("deeply_nested_values", 1)
		}
		if idx%25 == 3 && i == 0 {
			// more than a KiB of pure ASCII first, raw non-ASCII characters in keys and strings after it
			big := &jval{kind: 'a'}
			for k := g.Range(150, 400); k > 0; k-- {
				if g.Bool() {
					big.items = append(big.items, &jval{kind: 'n', num: float64(g.Range(0, 99999))})
				} else {
					big.items = append(big.items, &jval{kind: 's', str: "ascii item"})
				}
			}
			big.items = append(big.items, v, &jval{kind: 'o', keys: []string{"città", "k"}, items: []*jval{{kind: 's', str: "日本語 😀 é"}, {kind: 's', str: "naïve"}}})
			v = big
			r.Count("long_ascii_prefix_then_non_ascii", 1)
		}
		tops = append(tops, v)
		if i > 0 {
			sb.WriteString(rng.Pick(g, []string{" ", "\n", "\n\n"}))
		}
		if i == 0 && boundary {
			var one strings.Builder
			v.render(g, &one)
			if pad := 512 - one.Len(); pad >= 0 {
				sb.WriteString(strings.Repeat(" ", pad))
				r.Count("first_value_ends_on_byte_512", 1)
			}
			sb.WriteString(one.String())
			if g.Bool() {
				sb.WriteString(jws(g))
			}
			v.shape(&shape)
			mapJSON(d, d.Root, v, nums)
			continue
		}
		sb.WriteString(jws(g))
		v.render(g, &sb)
		sb.WriteString(jws(g))
		v.shape(&shape)
		mapJSON(d, d.Root, v, nums)
	}
	d.Finish()
	text := sb.String()
	if oerr := oracleJSONError([]byte(text)); oerr != nil {
		r.Broken(fmt.Sprintf("generated JSON rejected by encoding/json: %v: %s", oerr, text))
		return
	}
	// the valid text is read twice: in one Read, and through one of the piecewise readers
	mode2 := 1 + idx%4
	_, how := hostileReader(nil, mode2)
	root, err := safeReadJsonMode([]byte(text), 0)
	root2, err2 := safeReadJsonMode([]byte(text), mode2)
	r.Eval(2)
	r.Tab("reader", how, 1)
	if err == nil && err2 != nil {
		r.Violate("valid-rejected", map[string]any{"case": idx, "what": "ReadJson failed on valid JSON delivered as " + how + ": " + errStr(err2), "json": text})
	} else if err == nil {
		patchNumbers(root2, d.Root, nums)
		if class, what := checkStore(root2, d); class != "" {
			r.Violate("mapping/"+class, map[string]any{"case": idx, "what": "(input delivered as " + how + ") " + what, "json": text, "expected_tree": d.Dump()})
			err = fmt.Errorf("skip")
		}
	}
	if err != nil {
		if err.Error() != "skip" {
			r.Violate("valid-rejected", map[string]any{"case": idx, "what": "ReadJson failed on valid JSON: " + errStr(err), "json": text})
		}
	} else {
		patchNumbers(root, d.Root, nums)
		if class, what := checkStore(root, d); class != "" {
			r.Violate("mapping/"+class, map[string]any{"case": idx, "what": what, "json": text, "expected_tree": d.Dump()})
		} else {
			r.Sig(shape.String(), len(d.All) >= 3)
			r.Count("nodes_compared", len(d.All))
			r.Sample("json", 3, map[string]any{"case": idx, "json": text, "tree": d.Dump()})
		}
	}
	// malformed: proper prefixes and token-level edits
	b := []byte(text)
	var muts [][2]string
	step := 1
	if len(b) > 60 {
		step = len(b) / 60
	}
	for i := 0; i < len(b); i += step {
		muts = append(muts, [2]string{"prefix", string(b[:i])})
	}
	for i := 0; i < 8 && len(b) > 0; i++ {
		k := g.Intn(len(b))
		muts = append(muts, [2]string{"delete-byte", string(b[:k]) + string(b[k+1:])})
		ins := rng.Pick(g, []string{",", ":", "{", "}", "[", "]", "\"", "1", "x"})
		muts = append(muts, [2]string{"insert-token", string(b[:k]) + ins + string(b[k:])})
	}
	for _, m := range muts {
		oerr := oracleJSONError([]byte(m[1]))
		_, err := safeReadJson([]byte(m[1]))
		r.Eval(1)
		r.Tab("mutation", m[0], 1)
		if err != nil && strings.HasPrefix(err.Error(), "PANIC") {
			r.Violate("malformed/panic", map[string]any{"case": idx, "what": errStr(err), "json": m[1]})
			continue
		}
		if oerr != nil {
			r.Count("malformed_inputs", 1)
			r.Sig("mut|"+m[0]+"|"+shape.String(), true)
			if err == nil {
				r.Violate("malformed-accepted/"+m[0], map[string]any{"case": idx, "what": fmt.Sprintf("ReadJson returned a tree and a nil error for %q although it is not a sequence of complete JSON values (%v)", m[1], oerr), "json": m[1]})
			}
		} else {
			r.Count("mutants_still_valid", 1)
		}
	}
}
