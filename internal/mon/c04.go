package mon

import (
	"fmt"
	"math"

	"github.com/ChrisTrenkamp/xsel"

	"xselverif/internal/adoc"
	"xselverif/internal/bridge"
	"xselverif/internal/evid"
	"xselverif/internal/refeval"
	"xselverif/internal/rng"
	"xselverif/internal/xast"
)

// C04 — string(), number(), boolean() and implicit conversions.

func init() {
	Register(&Monitor{
		ID: "C04",
		Rule: "per case one generated document plus 60 values per type: (i) API level Result.String()/Number()/Bool() of xsel.Number/String/Bool/NodeSet values; (ii) expression level string($v), number($v), boolean($v), not(not($v)), $v + 0, concat($v,''), $v and true(), string-length($v) with $v bound to values of all four types (boundary doubles, random bit patterns, numeric-lexical strings and near misses over {0-9 . - + e E x I n f N a _ space tab CR LF NBSP}, node-sets from reverse axes / unions / reverse-ordered variables); (iii) xsel.GetCursorString on every node (every fourth case through the XML text and ReadXml; every tenth case is an HTML tag soup with character references, raw-text elements and foreign content read with ReadHtml and judged against the HTML5 parse tree); (iv) the typed entry points ExecAsString / ExecAsNumber / ExecAsNodeset on random expressions of all four result types from random context nodes: string() / number() of the model's result, the node-set itself, an error for ExecAsNodeset on the other types. " +
			"Oracle: reference conversions written from XPath 1.0 §3.4/§4.2-4.4 (string(number) accepted iff right lexical form and reads back to the same double). Relations: number(string(x)) = x for finite x, boolean(x) = not(not(x)), string(ns) = string of the first node in document order. " +
			"distinct_nontrivial = distinct (conversion, value class/value) pairs",
		Assumptions: []string{"'shortest' decimal expansion is not demanded of string(number), only round-trip and lexical form"},
		NCases:      func(tier string) int { return map[string]int{"quick": 3000, "thorough": 120000}[tier] },
		Case:        c04Case,
	})
}

func dclass(f float64) string {
	switch {
	case math.IsNaN(f):
		return "NaN"
	case math.IsInf(f, 0):
		return "inf"
	case f == 0:
		if math.Signbit(f) {
			return "-0"
		}
		return "+0"
	case f == math.Trunc(f) && math.Abs(f) < 1<<53:
		return "int"
	case math.Abs(f) >= 1<<53:
		return "huge"
	case math.Abs(f) < 1e-6:
		return "tiny"
	}
	return "frac"
}

// c04HTML: string-values and the conversions built on them for documents read with ReadHtml;
// the reference is the HTML5 parse tree (character references decoded exactly once, raw text
// elements not at all).
func c04HTML(r *evid.Run, idx int, g *rng.R) {
	w, src, err := newHTMLWorld(g)
	r.Count("cases_through_ReadHtml", 1)
	if err != nil {
		r.Violate("string-value/through-ReadHtml", map[string]any{"case": idx, "what": "the tree ReadHtml built differs from the HTML5 parse tree of the same text: " + err.Error(), "html": src})
		return
	}
	if w == nil {
		return
	}
	self := xast.Rel(xast.Step{Axis: "self", Test: xast.NodeT(), Abbrev: true})
	for _, n := range w.d.All {
		got := xsel.GetCursorString(w.m.ToC[n])
		r.Eval(1)
		r.Tab("string_value_kind", "html:"+n.Kind.String(), 1)
		if want := n.StringValue(); got != want {
			r.Violate("string-value/html/"+n.Kind.String(), map[string]any{"case": idx, "what": fmt.Sprintf("GetCursorString(%s) = %q, expected %q", n.Path(), got, want), "html": src})
			continue
		}
		if n.Kind == adoc.Text || n.Kind == adoc.Attr || (n.Kind == adoc.Elem && len(n.Children) < 3) {
			for _, f := range []string{"string", "number", "boolean", "string-length"} {
				w.check(r, "html-conversion/"+f, idx, n, xast.Fn(f, self), false)
			}
		}
		r.Sig("svh|"+n.Kind.String()+"|"+n.StringValue(), true)
	}
}

func c04Case(r *evid.Run, tier string, idx int, g *rng.R) {
	if idx%10 == 6 {
		c04HTML(r, idx, g)
		return
	}
	o := adoc.GenOpts{MinNodes: 5, MaxNodes: 40, NS: g.Intn(2), Misc: true, NumericText: g.P(60), Unicode: g.P(30)}
	if idx%4 == 1 {
		o.XMLSafe, o.NoAdjText = true, true
	}
	d := adoc.Generate(g, o)
	deep := idx%40 == 18
	if deep {
		adoc.Deepen(g, d, rng.Pick(g, []int{15, 16, 17, 33, 64, 65, 130, 257, 1000}))
		d.Finish()
		r.Count("cases_with_a_deep_chain", 1)
	}
	w, err := newWorld(d)
	if err == nil && idx%4 == 1 {
		// every fourth case goes through the XML text and xsel.ReadXml (R-xml): string-values as parsed
		w, err = newXMLWorld(d, g)
		r.Count("cases_through_ReadXml", 1)
		if err != nil {
			// the generated text is well-formed and round-trips exactly: a node whose kind, name or
			// value differs after ReadXml has a string-value other than the data model's
			r.Violate("string-value/through-ReadXml", map[string]any{"case": idx, "what": "the tree ReadXml built differs from the document's data model: " + err.Error(), "xml": d.ToXML(adoc.XMLOpts{}), "document": d.Dump()})
			return
		}
	}
	if err == nil && idx%4 == 3 {
		// every fourth case runs the evaluator on the independent Cursor implementation (R-ref)
		w, err = newRefWorld(d)
		r.Count("cases_on_reference_cursor", 1)
	}
	if err != nil {
		r.Inconclusive("store tree mismatch: " + err.Error())
		return
	}
	viol := func(class, what string) {
		r.Violate(class, map[string]any{"case": idx, "what": what, "document": d.Dump()})
	}
	// (iii) string-values of every node
	for _, n := range d.All {
		got := xsel.GetCursorString(w.m.ToC[n])
		r.Eval(1)
		r.Tab("string_value_kind", n.Kind.String(), 1)
		if want := n.StringValue(); got != want {
			viol("string-value/"+n.Kind.String(), fmt.Sprintf("GetCursorString(%s) = %q, expected %q", n.Path(), got, want))
		}
		r.Sig("sv|"+n.Kind.String()+"|"+n.StringValue(), true)
	}
	// values
	type tv struct {
		model refeval.Value
		lib   xsel.Result
		label string
	}
	var vals []tv
	for i := 0; i < 60; i++ {
		f := genDouble(g)
		vals = append(vals, tv{f, xsel.Number(f), "number:" + dclass(f)})
		s := genNumericString(g)
		vals = append(vals, tv{s, xsel.String(s), "string"})
	}
	vals = append(vals, tv{true, xsel.Bool(true), "boolean"}, tv{false, xsel.Bool(false), "boolean"})
	// node-sets: picked subsets in document order and reversed, plus empty
	for i := 0; i < 12; i++ {
		var pick []*adoc.Node
		for _, n := range d.All {
			if g.P(12) {
				pick = append(pick, n)
			}
		}
		ns := refeval.NodeSet(adoc.SortDoc(pick))
		lib := w.m.Lib(ns).(xsel.NodeSet)
		if g.P(35) {
			// arbitrary order: a caller may hand over a node-set in any order
			rng.Shuffle(g, lib)
			vals = append(vals, tv{ns, lib, "node-set:shuffled"})
		} else if g.Bool() {
			for a, b := 0, len(lib)-1; a < b; a, b = a+1, b-1 {
				lib[a], lib[b] = lib[b], lib[a]
			}
			vals = append(vals, tv{ns, lib, "node-set:reversed"})
		} else {
			vals = append(vals, tv{ns, lib, "node-set:ordered"})
		}
	}
	vals = append(vals, tv{refeval.NodeSet{}, xsel.NodeSet{}, "node-set:empty"})

	checkStr := func(what string, v refeval.Value, got, want string) {
		ok := got == want
		if f, isNum := v.(float64); isNum && !ok {
			ok = refeval.AcceptNumberString(f, got)
		}
		if !ok {
			viol("convert/string/"+refeval.TypeName(v), fmt.Sprintf("%s of %s = %q, expected %q", what, bridge.Show(v), got, want))
		}
	}
	for _, x := range vals {
		ws, wn, wb := refeval.ToString(x.model), refeval.ToNumber(x.model), refeval.ToBool(x.model)
		r.Tab("value_class", x.label, 1)
		r.Sig("val|"+x.label+"|"+ws, true)
		// (i) API level
		r.Eval(3)
		checkStr("Result.String()", x.model, x.lib.String(), ws)
		if got := x.lib.Number(); !refeval.SameNumber(got, wn, false) {
			viol("convert/number/"+refeval.TypeName(x.model), fmt.Sprintf("Result.Number() of %s = %s, expected %s", bridge.Show(x.model), showDouble(got), showDouble(wn)))
		}
		if got := x.lib.Bool(); got != wb {
			viol("convert/boolean/"+refeval.TypeName(x.model), fmt.Sprintf("Result.Bool() of %s = %v, expected %v", bridge.Show(x.model), got, wb))
		}
		// (ii) expression level
		bind := xsel.WithVariable("v", x.lib)
		v := xast.Var{Local: "v"}
		exprs := []struct {
			e    xast.Expr
			want refeval.Value
		}{
			{xast.Fn("string", v), ws},
			{xast.Fn("number", v), wn},
			{xast.Fn("boolean", v), wb},
			{xast.Fn("not", xast.Fn("not", v)), wb},
			{xast.Binary{Op: "+", L: v, R: xast.N(0)}, wn + 0},
			{xast.Fn("concat", v, xast.Lit{S: ""}), ws},
			{xast.Binary{Op: "and", L: v, R: xast.Fn("true")}, wb},
			{xast.Fn("starts-with", v, v), true},
			{xast.Neg{X: v}, -wn},
		}
		for _, ex := range exprs {
			s := xast.String(ex.e)
			got, _, err := w.libEval(d.Root, s, bind)
			r.Eval(1)
			r.Tab("expr_form", s, 1)
			if err != nil {
				viol("expr/error/"+s, fmt.Sprintf("%s with $v = %s failed: %s", s, bridge.Show(x.model), errStr(err)))
				continue
			}
			ok := bridge.Equal(got, ex.want, false)
			if f, isNum := x.model.(float64); isNum && !ok {
				if gs, isStr := got.(string); isStr {
					ok = refeval.AcceptNumberString(f, gs)
				}
			}
			if !ok {
				viol("expr/"+s+"/"+refeval.TypeName(x.model), fmt.Sprintf("%s with $v = %s gives %s, expected %s", s, bridge.Show(x.model), bridge.Show(got), bridge.Show(ex.want)))
			}
		}
		// relations
		if f, isNum := x.model.(float64); isNum && !math.IsNaN(f) && !math.IsInf(f, 0) {
			back := xsel.String(x.lib.String()).Number()
			r.Eval(1)
			if back != f {
				viol("relation/number-string-roundtrip", fmt.Sprintf("number(string(%s)) = %s", showDouble(f), showDouble(back)))
			}
		}
	}
	// node-set -> first node in document order, with sets produced by reverse axes and unions
	for i := 0; i < 10; i++ {
		n := rng.Pick(g, d.All)
		ax := rng.Pick(g, []string{"ancestor", "preceding", "preceding-sibling", "ancestor-or-self", "following", "descendant"})
		inner := xast.Rel(xast.S(ax, xast.NodeT()))
		var arg xast.Expr = inner
		if g.P(30) {
			arg = xast.Binary{Op: "|", L: inner, R: xast.Rel(xast.S("self", xast.NodeT()))}
		}
		for _, f := range []string{"string", "number", "boolean"} {
			w.check(r, "nodeset-first/"+f, idx, n, xast.Fn(f, arg), false)
		}
		// raw API: ExecAsNodeset(...).String()
		res, err := ExecStr(w.m.ToC[n], xast.String(inner), w.opts...)
		if err == nil {
			if ns, ok := res.(xsel.NodeSet); ok {
				mv, _ := w.modelEval(n, inner)
				r.Eval(1)
				if got, want := ns.String(), refeval.ToString(mv); got != want {
					viol("nodeset-first/api", fmt.Sprintf("NodeSet.String() of %s from %s = %q, expected %q (first node in document order)", xast.String(inner), n.Path(), got, want))
				}
			}
		}
	}
	// the typed entry points: ExecAsString / ExecAsNumber are string() / number() of the result,
	// ExecAsNodeset is the node-set itself or an error for the three other types
	// (not on the deep-chain documents: random multi-step paths are cubic in their depth)
	if !deep {
		elems, attrs, targets := vocab(d)
		cfg := &xast.Cfg{Elems: elems, Attrs: attrs, Prefixes: []string{"p", "q"}, Targets: targets, MaxSteps: 3, MaxDepth: 1, PredPct: 20, Abbrev: 50,
			Unions: true, Filters: true, Funcs: xast.AllFuncs, StrLits: []string{"", "a", "1", " 2 ", "12.5"}, NumLits: []float64{0, 1, 2, 0.5, 1e21, 1e-7}}
		// sum() stays out: the order in which the addends are added is not specified, and a
		// reverse-axis argument legitimately differs from document-order summation in the last bit
		fns := map[string]bool{}
		for f, ok := range xast.AllFuncs {
			fns[f] = ok && f != "sum"
		}
		cfg.Funcs = fns
		gen := &xast.Gen{R: g, C: cfg}
		for i := 0; i < 12; i++ {
			e := gen.Expr(xast.Type(g.Intn(4)), 0)
			n := rng.Pick(g, d.All)
			// absolute paths are judged for queries started at the root only (DESIGN 3.4)
			xast.Walk(e, func(x xast.Expr) {
				if p, ok := x.(xast.Path); ok && p.Abs {
					n = d.Root
				}
			})
			src := xast.String(e)
			gr, berr := Build(src)
			if berr != nil {
				continue
			}
			mv, merr := w.modelEval(n, e)
			func() {
				defer func() {
					if p := recover(); p != nil {
						viol("typed-entry/panic", fmt.Sprintf("ExecAs* on %s from %s panicked: %v", src, n.Path(), p))
					}
				}()
				gs, es := xsel.ExecAsString(w.m.ToC[n], gr, w.opts...)
				gn, en := xsel.ExecAsNumber(w.m.ToC[n], gr, w.opts...)
				gset, eset := xsel.ExecAsNodeset(w.m.ToC[n], gr, w.opts...)
				r.Eval(3)
				r.Tab("typed_entry_points", refevalTypeName(mv, merr), 1)
				if merr != nil {
					if es == nil || en == nil || eset == nil {
						viol("typed-entry/error", fmt.Sprintf("%s from %s must fail (%v) but an ExecAs* call returned a value", src, n.Path(), merr))
					}
					return
				}
				okStr := gs == refeval.ToString(mv)
				if f, isNum := mv.(float64); isNum {
					okStr = refeval.AcceptNumberString(f, gs)
				}
				if es != nil || !okStr {
					viol("typed-entry/string", fmt.Sprintf("ExecAsString(%s) from %s = %q (%v), expected %q", src, n.Path(), gs, errStr(es), refeval.ToString(mv)))
				}
				if en != nil || !refeval.SameNumber(gn, refeval.ToNumber(mv), false) {
					viol("typed-entry/number", fmt.Sprintf("ExecAsNumber(%s) from %s = %s (%v), expected %s", src, n.Path(), showDouble(gn), errStr(en), showDouble(refeval.ToNumber(mv))))
				}
				if mset, isSet := mv.(refeval.NodeSet); isSet {
					got, _ := w.m.Value(gset)
					if eset != nil || !bridge.Equal(mset, got, false) {
						viol("typed-entry/node-set", fmt.Sprintf("ExecAsNodeset(%s) from %s = %s (%v), expected %s", src, n.Path(), bridge.Show(got), errStr(eset), bridge.Show(mset)))
					}
				} else if eset == nil {
					viol("typed-entry/node-set", fmt.Sprintf("ExecAsNodeset(%s) from %s returned %d nodes and no error although the result is a %s", src, n.Path(), len(gset), refeval.TypeName(mv)))
				}
				r.Sig("typed|"+refeval.TypeName(mv)+"|"+src, true)
			}()
		}
	}
	// nodes of a second document compared with and converted next to nodes of the first in one query
	if idx%3 == 2 && !w.ref && !deep && idx%4 != 1 {
		w.env.Vars, w.env.Funcs = nil, nil
		foreignSection(r, "two-documents", idx, g, w, o, func(g *rng.R, w *world) xast.Expr {
			t := fsName(g, w)
			switch g.Intn(3) {
			case 0:
				return xast.Fn("string", xast.Abs(xast.DS(), xast.S("child", t)))
			case 1:
				return xast.Binary{Op: "+", L: xast.Fn("number", xast.Abs(xast.DS(), xast.S("child", t))), R: xast.N(1)}
			}
			return xast.Fn("boolean", xast.Abs(xast.DS(), xast.S("child", t)))
		}, func(g *rng.R, wB *world, ov xast.Expr) xast.Expr {
			switch g.Intn(5) {
			case 0:
				return xast.Fn("string", ov)
			case 1:
				return xast.Binary{Op: "+", L: xast.Fn("number", ov), R: xast.N(1)}
			case 2:
				return xast.Fn("string-length", ov)
			case 3:
				return xast.Fn("boolean", ov)
			}
			return xast.Fn("string", xast.Path{Head: ov, Steps: []xast.Step{xast.DS(), xast.S("child", fsName(g, wB))}})
		})
	}
	r.Sample("doc", 2, map[string]any{"case": idx, "document": d.Dump(), "values": len(vals)})
}

func refevalTypeName(v refeval.Value, err error) string {
	if err != nil {
		return "error"
	}
	return refeval.TypeName(v)
}
