package mon

import (
	"fmt"
	"math"
	"reflect"
	"strings"

	"github.com/ChrisTrenkamp/xsel"

	"xselverif/internal/adoc"
	"xselverif/internal/bridge"
	"xselverif/internal/evid"
	"xselverif/internal/rng"
)

// C19 — Unmarshal fills targets with the converted results of their tag queries.

func init() {
	Register(&Monitor{
		ID: "C19",
		Rule: "per generated document: target types from a hand-written catalogue (every supported kind, pointer depth 0-3, nested structs, slices of scalars / structs / pointers, untagged fields, tagged pointer fields that already point to recognisable values before the call (which must stay untouched), unexported tagged fields, unsupported kinds) and from reflect.StructOf compositions of exported tagged fields, tag expressions of all four result types and of wrong shapes, namespace/variable bindings, slice targets with pre-existing elements; " +
			"oracle: the expected value of every tagged field is computed from a separate xsel.Exec of the tag on the same node (String()/Bool()/Number() converted with Go's conversion to the field type, slice element i from node i in result order, struct fields recursively, pointers non-nil and not aliasing one another), untagged fields must keep their sentinels, targets that cannot be filled and results of the wrong shape must return an error, and no call may panic. distinct_nontrivial = distinct (target type, outcome class) pairs with at least one field filled from a non-empty result",
		Assumptions: []string{"numbers that do not fit the target integer type (or NaN) are not judged: Go's float-to-int conversion is implementation-defined there", "error texts are not compared, only error-ness", "a top-level slice target with pre-existing elements may keep them as a prefix or drop them; the new elements must be the tail in order"},
		NCases:      func(tier string) int { return map[string]int{"quick": 900, "thorough": 12000}[tier] },
		Case:        c19Case,
	})
}

type c19Leaf struct {
	Name string `xsel:"name()"`
	Text string `xsel:"."`
	N    int    `xsel:"count(*)"`
}

type c19Mid struct {
	ID     string     `xsel:"@id"`
	Kids   []c19Leaf  `xsel:"*"`
	First  c19Leaf    `xsel:"*[1]"`
	FirstP *c19Leaf   `xsel:"*[1]"`
	KidPs  []*c19Leaf `xsel:"*"`
	Keep   int
}

type c19Scalars struct {
	S    string  `xsel:"string(@id)"`
	B    bool    `xsel:"boolean(*)"`
	I    int     `xsel:"count(*)"`
	I8   int8    `xsel:"count(*)"`
	I16  int16   `xsel:"count(@*)"`
	I32  int32   `xsel:"count(text())"`
	I64  int64   `xsel:"count(node())"`
	U    uint    `xsel:"count(*)"`
	U8   uint8   `xsel:"count(*)"`
	U16  uint16  `xsel:"count(*)"`
	U32  uint32  `xsel:"count(*)"`
	U64  uint64  `xsel:"count(*)"`
	F32  float32 `xsel:"count(*) div 4"`
	F64  float64 `xsel:"number(@n)"`
	Big  uint64  `xsel:"10000000000000000000 + count(*)"`
	BigU uint    `xsel:"18446744073709549568"`
	Neg  int64   `xsel:"-9223372036854775808 + count(*)"`
	Keep string
	Also []int
}

type c19Ptrs struct {
	P1   *string   `xsel:"@id"`
	P2   **string  `xsel:"@id"`
	P3   ***string `xsel:"@id"`
	PI   *int      `xsel:"count(*)"`
	PB   **bool    `xsel:"@k"`
	PF   *float64  `xsel:"count(*) + 0.5"`
	Same *string   `xsel:"@id"`
	PS   *[]string `xsel:"*"`
	Keep *int
}

type c19Slices struct {
	Strs  []string   `xsel:"*"`
	Ints  []int      `xsel:"*[number(.) = number(.)][number(.) < 1000][number(.) > -1000]"`
	Bools []bool     `xsel:"@*"`
	Flts  []float64  `xsel:"*[number(.) = number(.)]"`
	PStrs []*string  `xsel:"text()"`
	PPs   []**string `xsel:"*"`
	Empty []string   `xsel:"no-such-child"`
	Rev   []string   `xsel:"ancestor-or-self::*"`
}

// fields of named (defined) types: the value is converted to the field type
type c19ID string
type c19Count int
type c19Flag bool
type c19Ratio float64
type c19Small uint8

type c19Named struct {
	A  c19ID       `xsel:"@id"`
	N  c19Count    `xsel:"count(*)"`
	F  c19Flag     `xsel:"boolean(*)"`
	R  c19Ratio    `xsel:"count(*) div 4"`
	U  c19Small    `xsel:"count(@*)"`
	PA *c19ID      `xsel:"name()"`
	S  []c19ID     `xsel:"*"`
	PS []*c19Count `xsel:"*[number(.) = number(.)][. < 1000][. > -1000]"`
}

// embedded (anonymous) struct fields: a tagged one is a field like any other, an untagged one is left alone
type c19Emb struct {
	c19Leaf `xsel:"*[1]"`
	ID      string `xsel:"@id" json:"id,omitempty"`
}
type c19EmbUntagged struct {
	c19Leaf
	ID string `json:"x" xsel:"name()"`
}
type c19EmbPtr struct {
	*c19Leaf `xsel:"."`
	Kids     []c19Emb `xsel:"*"`
}
type c19Deep struct {
	Level1 struct {
		Level2 struct {
			V string   `xsel:"$v"`
			A []string `xsel:"p:*|*"`
			N float64  `xsel:"$n * 2"`
		} `xsel:"."`
	} `xsel:"."`
}

type c19NS struct {
	A  string   `xsel:"p:a"`
	As []string `xsel:"p:*"`
	V  string   `xsel:"$v"`
	N  float64  `xsel:"$n + 1"`
}

type c19WrongShape1 struct {
	Kids []string `xsel:"count(*)"` // slice from a number
}
type c19WrongShape2 struct {
	Kid c19Leaf `xsel:"string(.)"` // struct from a string
}
type c19WrongShape3 struct {
	Kid c19Leaf `xsel:"//node()"` // struct from many nodes (or none)
}
type c19Unexported struct {
	ID     string `xsel:"@id"`
	hidden string `xsel:"@id"`
}
type c19Unsupported1 struct {
	M map[string]string `xsel:"*"`
}
type c19Unsupported2 struct {
	A [2]string `xsel:"*"`
}
type c19Unsupported3 struct {
	C chan int `xsel:"*"`
}
type c19Unsupported4 struct {
	MD [][]string `xsel:"*"`
}
type c19Unsupported5 struct {
	I any `xsel:"*"`
}
type c19Unsupported6 struct {
	F func() `xsel:"*"`
}
type c19BadTag struct {
	S string `xsel:"*["`
}

var c19Good = []reflect.Type{reflect.TypeOf(c19Leaf{}), reflect.TypeOf(c19Mid{}), reflect.TypeOf(c19Scalars{}), reflect.TypeOf(c19Ptrs{}), reflect.TypeOf(c19Slices{}), reflect.TypeOf(c19NS{}), reflect.TypeOf(c19Named{}), reflect.TypeOf(c19Emb{}), reflect.TypeOf(c19EmbUntagged{}), reflect.TypeOf(c19EmbPtr{}), reflect.TypeOf(c19Deep{})}
var c19Bad = []reflect.Type{reflect.TypeOf(c19WrongShape1{}), reflect.TypeOf(c19WrongShape2{}), reflect.TypeOf(c19WrongShape3{}), reflect.TypeOf(c19Unexported{}),
	reflect.TypeOf(c19Unsupported1{}), reflect.TypeOf(c19Unsupported2{}), reflect.TypeOf(c19Unsupported3{}), reflect.TypeOf(c19Unsupported4{}), reflect.TypeOf(c19Unsupported5{}), reflect.TypeOf(c19Unsupported6{}), reflect.TypeOf(c19BadTag{})}

type c19Ctx struct {
	opts   []xsel.ContextApply
	filled int
	skip   bool // a value outside the judged range was met
}

func fitsInt(f float64, kind reflect.Kind) bool {
	if math.IsNaN(f) || math.IsInf(f, 0) {
		return false
	}
	f = math.Trunc(f)
	switch kind {
	case reflect.Int8:
		return f >= -128 && f <= 127
	case reflect.Int16:
		return f >= -32768 && f <= 32767
	case reflect.Int32:
		return f >= -(1<<31) && f <= 1<<31-1
	case reflect.Int, reflect.Int64:
		return f >= -(1<<63) && f < 1<<63
	case reflect.Uint8:
		return f >= 0 && f <= 255
	case reflect.Uint16:
		return f >= 0 && f <= 65535
	case reflect.Uint32:
		return f >= 0 && f <= 1<<32-1
	case reflect.Uint, reflect.Uint64:
		return f >= 0 && f < 1<<64
	}
	return true
}

// scalarFrom converts a result to a scalar kind the way the statement says.
func (c *c19Ctx) scalarFrom(res xsel.Result, t reflect.Type) (reflect.Value, bool) {
	v := reflect.New(t).Elem()
	switch t.Kind() {
	case reflect.String:
		v.SetString(res.String())
	case reflect.Bool:
		v.SetBool(res.Bool())
	case reflect.Int, reflect.Int8, reflect.Int16, reflect.Int32, reflect.Int64:
		f := res.Number()
		if !fitsInt(f, t.Kind()) {
			c.skip = true
			return v, true
		}
		v.SetInt(int64(f))
	case reflect.Uint, reflect.Uint8, reflect.Uint16, reflect.Uint32, reflect.Uint64:
		f := res.Number()
		if !fitsInt(f, t.Kind()) {
			c.skip = true
			return v, true
		}
		v.SetUint(uint64(f))
	case reflect.Float32:
		v.SetFloat(float64(float32(res.Number())))
	case reflect.Float64:
		v.SetFloat(res.Number())
	default:
		return v, false
	}
	return v, true
}

func wrapPtrs(v reflect.Value, depth int) reflect.Value {
	for ; depth > 0; depth-- {
		p := reflect.New(v.Type())
		p.Elem().Set(v)
		v = p
	}
	return v
}

func stripPtrs(t reflect.Type) (reflect.Type, int) {
	n := 0
	for t.Kind() == reflect.Pointer {
		t = t.Elem()
		n++
	}
	return t, n
}

// expectValue computes what a field/element of type t must hold given the
// result of its query; ok=false means "an error is required".
func (c *c19Ctx) expectValue(res xsel.Result, t reflect.Type) (reflect.Value, bool) {
	base, depth := stripPtrs(t)
	switch base.Kind() {
	case reflect.Struct:
		ns, isSet := res.(xsel.NodeSet)
		if !isSet || len(ns) != 1 {
			return reflect.Value{}, false
		}
		sv, ok := c.expectStruct(ns[0], base, reflect.Value{})
		if !ok {
			return reflect.Value{}, false
		}
		return wrapPtrs(sv, depth), true
	case reflect.Slice:
		ns, isSet := res.(xsel.NodeSet)
		if !isSet {
			return reflect.Value{}, false
		}
		eb, ed := stripPtrs(base.Elem())
		out := reflect.MakeSlice(base, 0, len(ns))
		for _, n := range ns {
			var ev reflect.Value
			switch eb.Kind() {
			case reflect.Slice:
				return reflect.Value{}, false
			case reflect.Struct:
				sv, ok := c.expectStruct(n, eb, reflect.Value{})
				if !ok {
					return reflect.Value{}, false
				}
				ev = sv
			default:
				x, ok := c.scalarFrom(xsel.NodeSet{n}, eb)
				if !ok {
					return reflect.Value{}, false
				}
				ev = x
			}
			out = reflect.Append(out, wrapPtrs(ev, ed))
		}
		if len(ns) > 0 {
			c.filled++
		}
		if len(ns) == 0 {
			// a slice field filled from an empty node-set: nil or empty are both "no elements"
			out = reflect.Zero(base)
		}
		return wrapPtrs(out, depth), true
	}
	v, ok := c.scalarFrom(res, base)
	if !ok {
		return reflect.Value{}, false
	}
	if res.String() != "" {
		c.filled++
	}
	return wrapPtrs(v, depth), true
}

// expectStruct builds the expected struct from node; `init` (optional) provides
// the pre-filled untagged fields.
func (c *c19Ctx) expectStruct(node xsel.Cursor, t reflect.Type, init reflect.Value) (reflect.Value, bool) {
	out := reflect.New(t).Elem()
	if init.IsValid() {
		out.Set(init)
	}
	for i := 0; i < t.NumField(); i++ {
		f := t.Field(i)
		tag := f.Tag.Get("xsel")
		if tag == "" {
			continue
		}
		g, err := Build(tag)
		if err != nil {
			return out, false
		}
		res, err := Exec(node, g, c.opts...)
		if err != nil {
			return out, false
		}
		if !f.IsExported() {
			return out, false
		}
		v, ok := c.expectValue(res, f.Type)
		if !ok {
			return out, false
		}
		out.Field(i).Set(v)
	}
	return out, true
}

// normaliseEmptySlices makes nil and empty slices equal for comparison.
func normaliseEmptySlices(v reflect.Value) {
	switch v.Kind() {
	case reflect.Pointer:
		if !v.IsNil() {
			normaliseEmptySlices(v.Elem())
		}
	case reflect.Struct:
		for i := 0; i < v.NumField(); i++ {
			if v.Type().Field(i).IsExported() {
				normaliseEmptySlices(v.Field(i))
			}
		}
	case reflect.Slice:
		if v.Len() == 0 && !v.IsNil() && v.CanSet() {
			v.Set(reflect.Zero(v.Type()))
		}
		for i := 0; i < v.Len(); i++ {
			normaliseEmptySlices(v.Index(i))
		}
	}
}

// pointersDistinct checks that no two pointer-typed locations share an address.
func pointersDistinct(v reflect.Value, seen map[uintptr]string, path string) string {
	switch v.Kind() {
	case reflect.Pointer:
		if v.IsNil() {
			return ""
		}
		if prev, dup := seen[v.Pointer()]; dup {
			return fmt.Sprintf("%s and %s point to the same allocation", prev, path)
		}
		seen[v.Pointer()] = path
		return pointersDistinct(v.Elem(), seen, "*"+path)
	case reflect.Struct:
		for i := 0; i < v.NumField(); i++ {
			if msg := pointersDistinct(v.Field(i), seen, path+"."+v.Type().Field(i).Name); msg != "" {
				return msg
			}
		}
	case reflect.Slice:
		for i := 0; i < v.Len(); i++ {
			if msg := pointersDistinct(v.Index(i), seen, fmt.Sprintf("%s[%d]", path, i)); msg != "" {
				return msg
			}
		}
	}
	return ""
}

func safeUnmarshal(res xsel.Result, target any, opts ...xsel.ContextApply) (err error, panicked any) {
	defer func() {
		if p := recover(); p != nil {
			panicked = p
		}
	}()
	return xsel.Unmarshal(res, target, opts...), nil
}

var c19TagPool = map[reflect.Kind][]string{
	reflect.String:  {"@id", ".", "name()", "string(*[1])", "*", "text()", "..", "'lit'", "concat(@id,'-',@k)", "no-such", "count(*)", "true()"},
	reflect.Bool:    {"*", "@id", "boolean(@k)", "count(*) > 1", "false()", "'x'", "no-such", ". = 'abc'"},
	reflect.Int:     {"count(*)", "count(@*)", "string-length(.)", "count(//node())", "1 + 2", "position()", "last()", "count(ancestor::*)", "10000000000000000000", "18446744073709549568", "9223372036854774784", "-9223372036854775808", "4294967296 * 3", "-(count(*)) - 200", "2.75 + count(*)"},
	reflect.Float64: {"count(*) div 3", "number(@n)", "1.5", "count(*)", "sum(*[number(.) = number(.)])", "0 div 0", "-1 div 0"},
	reflect.Slice:   {"*", "@*", "node()", "text()", "ancestor::*", "//*", "no-such", "*|@*", "following-sibling::*", "*[2]"},
	reflect.Struct:  {".", "*[1]", "..", "self::*", "(//*)[1]", "ancestor-or-self::*[last()]"},
}

func c19RandomType(g *rng.R, depth int) reflect.Type {
	scalars := []reflect.Type{reflect.TypeOf(""), reflect.TypeOf(true), reflect.TypeOf(int(0)), reflect.TypeOf(int8(0)), reflect.TypeOf(int32(0)), reflect.TypeOf(uint16(0)), reflect.TypeOf(uint64(0)), reflect.TypeOf(float32(0)), reflect.TypeOf(float64(0))}
	n := g.Range(1, 6)
	var fields []reflect.StructField
	for i := 0; i < n; i++ {
		var t reflect.Type
		var tags []string
		switch k := g.Intn(10); {
		case k < 5:
			t = rng.Pick(g, scalars)
			switch t.Kind() {
			case reflect.String:
				tags = c19TagPool[reflect.String]
			case reflect.Bool:
				tags = c19TagPool[reflect.Bool]
			case reflect.Float32, reflect.Float64:
				tags = c19TagPool[reflect.Float64]
			default:
				tags = c19TagPool[reflect.Int]
			}
		case k < 7:
			et := rng.Pick(g, scalars[:3])
			if depth < 2 && g.P(40) {
				et = c19RandomType(g, depth+1)
			}
			for p := g.Intn(2); p > 0; p-- {
				et = reflect.PointerTo(et)
			}
			t = reflect.SliceOf(et)
			tags = c19TagPool[reflect.Slice]
		case k < 9 && depth < 2:
			t = c19RandomType(g, depth+1)
			tags = c19TagPool[reflect.Struct]
		default:
			t = reflect.TypeOf(c19Leaf{})
			tags = c19TagPool[reflect.Struct]
		}
		for p := g.Intn(3); p > 0 && g.P(40); p-- {
			t = reflect.PointerTo(t)
		}
		tag := rng.Pick(g, tags)
		f := reflect.StructField{Name: fmt.Sprintf("F%d", i), Type: t}
		if g.P(88) {
			f.Tag = reflect.StructTag(fmt.Sprintf(`xsel:%q`, tag))
		}
		fields = append(fields, f)
	}
	return reflect.StructOf(fields)
}

func c19Case(r *evid.Run, tier string, idx int, g *rng.R) {
	o := adoc.GenOpts{MinNodes: 8, MaxNodes: 40, NS: g.Intn(2), Misc: g.P(40), NumericText: true}
	d := adoc.Generate(g, o)
	// one case in thirty: an element with 1000..2000 children, so that slice targets get thousands of elements
	var wide *adoc.Node
	if idx%30 == 7 {
		wide = rng.Pick(g, d.Elements())
		for k, n := 0, g.Range(1000, 2000); k < n; k++ {
			c := d.AddElem(wide, "", rng.Pick(g, []string{"item", "item", "a", "b"}))
			if g.P(60) {
				d.AddText(c, fmt.Sprint(g.Intn(100)))
			}
			if g.P(10) {
				d.AddAttr(c, "", "id", fmt.Sprint(k))
			}
		}
		d.Finish()
		r.Count("cases_with_a_wide_element", 1)
	}
	w, err := newWorld(d)
	if err != nil {
		r.Inconclusive("store tree mismatch: " + err.Error())
		return
	}
	opts := append(append([]xsel.ContextApply{}, w.opts...), xsel.WithVariable("v", xsel.String("var-value")), xsel.WithVariable("n", xsel.Number(41)))
	elemsOnly := d.Elements()
	viol := func(class, what string) {
		r.Violate(class, map[string]any{"case": idx, "what": what, "document": d.Dump()})
	}
	types := append([]reflect.Type{}, c19Good...)
	nrand := 6
	if tier == "thorough" {
		nrand = 12
	}
	if wide != nil {
		// catalogue types only: random tag expressions over thousands of context nodes cost minutes
		nrand = 0
	}
	for i := 0; i < nrand; i++ {
		types = append(types, c19RandomType(g, 0))
	}
	// distinct types that print alike (function-local types called Row): what a type's fields mean
	// is a matter of that type, not of its name
	rows := c19RowTypes()
	rng.Shuffle(g, rows)
	types = append(types, rows...)
	types = append(types, c19Bad...)
	for _, t := range types {
		for rep := 0; rep < 3; rep++ {
			node := rng.Pick(g, elemsOnly)
			if wide != nil {
				if rep > 0 {
					break
				}
				node = wide
			}
			cur := w.m.ToC[node]
			c := &c19Ctx{opts: opts}
			// target: pointer chain of depth 1..3 to a pre-filled struct
			target := reflect.New(t)
			prefill(target.Elem())
			// half of the targets also arrive with their tagged pointer fields already pointing somewhere:
			// pointer fields are freshly allocated, the caller's old pointees are never written through
			var presets []ptrPreset
			if g.Bool() {
				presets = presetPointers(target.Elem(), "target")
			}
			init := reflect.New(t).Elem()
			init.Set(target.Elem())
			arg := target
			for k := g.Intn(3); k > 0; k-- {
				p := reflect.New(arg.Type())
				p.Elem().Set(arg)
				arg = p
			}
			want, wantOK := c.expectStruct(cur, t, init)
			err, panicked := safeUnmarshal(xsel.NodeSet{cur}, arg.Interface(), opts...)
			r.Eval(1)
			r.Tab("target_kind", kindLabel(t), 1)
			tname := typeLabel(t)
			if panicked != nil {
				viol("panic/struct", fmt.Sprintf("Unmarshal into %s from %s panicked: %v", tname, node.Path(), panicked))
				continue
			}
			if c.skip {
				r.Count("not_judged_out_of_range", 1)
				continue
			}
			if !wantOK {
				r.Sig("err|"+tname, true)
				if err == nil {
					viol("missing-error", fmt.Sprintf("Unmarshal into %s from %s returned nil although a tagged field cannot be filled (wrong result shape, unsupported kind or unexported field)", tname, node.Path()))
				}
				continue
			}
			if err != nil {
				viol("unexpected-error", fmt.Sprintf("Unmarshal into %s from %s failed: %s", tname, node.Path(), errStr(err)))
				continue
			}
			got := target.Elem()
			normaliseEmptySlices(got)
			wantAddr := reflect.New(t)
			wantAddr.Elem().Set(want)
			normaliseEmptySlices(wantAddr.Elem())
			if !nanEqual(got, wantAddr.Elem()) {
				viol("value", fmt.Sprintf("Unmarshal into %s from %s: got %s, expected %s", tname, node.Path(), render(got), render(wantAddr.Elem())))
				continue
			}
			for _, ps := range presets {
				r.Count("preset_pointees_checked", 1)
				if !nanEqual(ps.pointee.Elem(), ps.snapshot) {
					viol("pointer-written-through", fmt.Sprintf("Unmarshal into %s from %s: the value the field %s pointed to before the call was changed from %s to %s (pointer fields must be freshly allocated)", tname, node.Path(), ps.path, render(ps.snapshot), render(ps.pointee.Elem())))
					break
				}
			}
			if msg := pointersDistinct(got, map[uintptr]string{}, "target"); msg != "" {
				viol("pointer-aliasing", fmt.Sprintf("Unmarshal into %s from %s: %s", tname, node.Path(), msg))
				continue
			}
			r.Sig("ok|"+tname, c.filled > 0)
			if c.filled > 0 {
				r.Sample("struct", 3, map[string]any{"case": idx, "type": tname, "node": node.Path(), "value": render(got)})
			}
		}
	}
	// slice targets
	sliceTypes := []reflect.Type{reflect.TypeOf([]string{}), reflect.TypeOf([]int{}), reflect.TypeOf([]float64{}), reflect.TypeOf([]bool{}), reflect.TypeOf([]*string{}), reflect.TypeOf([]c19Leaf{}), reflect.TypeOf([]*c19Leaf{}), reflect.TypeOf([]**int{}), reflect.TypeOf([][]string{}), reflect.TypeOf([]map[string]int{}), reflect.TypeOf([]uint8{})}
	for _, st := range sliceTypes {
		qs := []string{"//*", "//@*", "//text()", "//*[number(.) = number(.)][. < 100][. > -100]", "/no-such", "//*/ancestor::*"}
		q := rng.Pick(g, qs)
		res, qerr := ExecStr(w.m.Root, q, opts...)
		if qerr != nil {
			continue
		}
		ns := res.(xsel.NodeSet)
		c := &c19Ctx{opts: opts}
		target := reflect.New(st)
		pre := 0
		if g.P(40) && len(ns) > 0 {
			// pre-existing elements
			ev, ok := c.expectValue(xsel.NodeSet{ns[0]}, st)
			if ok && ev.Len() == 1 {
				target.Elem().Set(reflect.Append(target.Elem(), ev.Index(0)))
				pre = 1
			}
		}
		c = &c19Ctx{opts: opts}
		want, wantOK := c.expectValue(ns, st)
		err, panicked := safeUnmarshal(ns, target.Interface(), opts...)
		r.Eval(1)
		r.Tab("target_kind", "slice:"+st.Elem().String(), 1)
		if panicked != nil {
			viol("panic/slice", fmt.Sprintf("Unmarshal of %s into %s panicked: %v", q, st, panicked))
			continue
		}
		if c.skip {
			continue
		}
		if !wantOK && len(ns) > 0 {
			r.Sig("err|"+st.String(), true)
			if err == nil {
				viol("missing-error", fmt.Sprintf("Unmarshal of %s into %s returned nil", q, st))
			}
			continue
		}
		if !wantOK {
			continue // nothing to fill: error or not is not stated
		}
		if err != nil {
			viol("unexpected-error", fmt.Sprintf("Unmarshal of %s (%d nodes) into %s failed: %s", q, len(ns), st, errStr(err)))
			continue
		}
		got := target.Elem()
		n := 0
		if want.IsValid() && want.Kind() == reflect.Slice {
			n = want.Len()
		}
		ok := got.Len() == n || got.Len() == n+pre
		if ok && n > 0 {
			tail := got.Slice(got.Len()-n, got.Len())
			ok = nanEqual(tail, want)
		}
		if !ok {
			viol("value/slice", fmt.Sprintf("Unmarshal of %s into %s: got %s, expected the %d elements %s as the tail", q, st, render(got), n, render(want)))
			continue
		}
		r.Sig("ok|"+st.String()+"|"+q, n > 0)
	}
	// targets that cannot be filled: must be errors, never panics
	one := xsel.NodeSet{w.m.ToC[rng.Pick(g, elemsOnly)]}
	var nilLeaf *c19Leaf
	var nilPP **c19Leaf
	inner := (*c19Leaf)(nil)
	var iface any
	m := map[string]string{}
	bad := []struct {
		label  string
		target any
		res    xsel.Result
	}{
		{"nil", nil, one}, {"struct value", c19Leaf{}, one}, {"nil *struct", nilLeaf, one}, {"nil **struct", nilPP, one}, {"**struct with nil inner", &inner, one},
		{"map", m, one}, {"*map", &m, one}, {"array", [2]string{}, one}, {"*array", &[2]string{}, one}, {"chan", make(chan int), one}, {"func", func() {}, one},
		{"*interface", &iface, one}, {"int", 5, one}, {"*int", new(int), one}, {"string", "s", one}, {"slice value", []string{}, one}, {"*[][]string", &[][]string{}, one},
		{"struct from number", &c19Leaf{}, xsel.Number(1)}, {"struct from string", &c19Leaf{}, xsel.String("x")}, {"struct from empty set", &c19Leaf{}, xsel.NodeSet{}},
		{"struct from two nodes", &c19Leaf{}, xsel.NodeSet{one[0], w.m.Root}}, {"slice from bool", &[]string{}, xsel.Bool(true)}, {"slice from nil result", &[]string{}, nil},
		{"struct from nil result", &c19Leaf{}, nil}, {"unexported tagged field", &c19Unexported{}, one},
	}
	for _, b := range bad {
		err, panicked := safeUnmarshal(b.res, b.target, opts...)
		r.Eval(1)
		r.Tab("unfillable_target", b.label, 1)
		r.Sig("bad|"+b.label, true)
		if panicked != nil {
			viol("panic/target", fmt.Sprintf("Unmarshal(%T result, %s target) panicked: %v", b.res, b.label, panicked))
		} else if err == nil {
			viol("missing-error/target", fmt.Sprintf("Unmarshal(%T result, %s target) returned nil", b.res, b.label))
		}
	}
}

func prefill(v reflect.Value) {
	t := v.Type()
	for i := 0; i < t.NumField(); i++ {
		f := t.Field(i)
		if f.Tag.Get("xsel") != "" || !f.IsExported() {
			continue
		}
		fv := v.Field(i)
		switch fv.Kind() {
		case reflect.String:
			fv.SetString("sentinel")
		case reflect.Int, reflect.Int8, reflect.Int16, reflect.Int32, reflect.Int64:
			fv.SetInt(77)
		case reflect.Uint, reflect.Uint8, reflect.Uint16, reflect.Uint32, reflect.Uint64:
			fv.SetUint(77)
		case reflect.Bool:
			fv.SetBool(true)
		case reflect.Float32, reflect.Float64:
			fv.SetFloat(7.5)
		case reflect.Slice:
			fv.Set(reflect.MakeSlice(fv.Type(), 1, 1))
		case reflect.Pointer:
			fv.Set(reflect.New(fv.Type().Elem()))
		}
	}
}

func typeLabel(t reflect.Type) string {
	s := t.String()
	if len(s) > 160 {
		s = s[:160] + "…"
	}
	return s
}

func kindLabel(t reflect.Type) string {
	if t.Name() != "" {
		return t.Name()
	}
	return "StructOf"
}

func render(v reflect.Value) string {
	var sb strings.Builder
	var w func(v reflect.Value, depth int)
	w = func(v reflect.Value, depth int) {
		if !v.IsValid() {
			sb.WriteString("<invalid>")
			return
		}
		if depth > 6 {
			sb.WriteString("…")
			return
		}
		switch v.Kind() {
		case reflect.Pointer:
			if v.IsNil() {
				sb.WriteString("nil")
				return
			}
			sb.WriteString("&")
			w(v.Elem(), depth+1)
		case reflect.Struct:
			sb.WriteString("{")
			for i := 0; i < v.NumField(); i++ {
				if i > 0 {
					sb.WriteString(" ")
				}
				sb.WriteString(v.Type().Field(i).Name + ":")
				w(v.Field(i), depth+1)
			}
			sb.WriteString("}")
		case reflect.Slice:
			if v.IsNil() {
				sb.WriteString("[]")
				return
			}
			sb.WriteString("[")
			for i := 0; i < v.Len() && i < 8; i++ {
				if i > 0 {
					sb.WriteString(" ")
				}
				w(v.Index(i), depth+1)
			}
			if v.Len() > 8 {
				fmt.Fprintf(&sb, " …%d more", v.Len()-8)
			}
			sb.WriteString("]")
		case reflect.String:
			fmt.Fprintf(&sb, "%q", v.String())
		default:
			if v.CanInterface() {
				fmt.Fprintf(&sb, "%v", v.Interface())
			} else {
				sb.WriteString(v.Kind().String())
			}
		}
	}
	w(v, 0)
	s := sb.String()
	if len(s) > 500 {
		s = s[:500] + "…"
	}
	return s
}

var _ = bridge.Show

// nanEqual is reflect.DeepEqual with NaN equal to NaN.
func nanEqual(a, b reflect.Value) bool {
	if a.IsValid() != b.IsValid() {
		return false
	}
	if !a.IsValid() {
		return true
	}
	if a.Type() != b.Type() {
		return false
	}
	switch a.Kind() {
	case reflect.Float32, reflect.Float64:
		x, y := a.Float(), b.Float()
		return x == y || (x != x && y != y)
	case reflect.Pointer:
		if a.IsNil() || b.IsNil() {
			return a.IsNil() == b.IsNil()
		}
		return nanEqual(a.Elem(), b.Elem())
	case reflect.Struct:
		for i := 0; i < a.NumField(); i++ {
			if !nanEqual(a.Field(i), b.Field(i)) {
				return false
			}
		}
		return true
	case reflect.Slice:
		if a.Len() != b.Len() {
			return false
		}
		for i := 0; i < a.Len(); i++ {
			if !nanEqual(a.Index(i), b.Index(i)) {
				return false
			}
		}
		return true
	case reflect.String:
		return a.String() == b.String()
	case reflect.Bool:
		return a.Bool() == b.Bool()
	case reflect.Int, reflect.Int8, reflect.Int16, reflect.Int32, reflect.Int64:
		return a.Int() == b.Int()
	case reflect.Uint, reflect.Uint8, reflect.Uint16, reflect.Uint32, reflect.Uint64:
		return a.Uint() == b.Uint()
	}
	if a.CanInterface() && b.CanInterface() {
		return reflect.DeepEqual(a.Interface(), b.Interface())
	}
	return true
}

// ptrPreset records what a tagged pointer field pointed to before Unmarshal.
type ptrPreset struct {
	path     string
	pointee  reflect.Value // the old pointer
	snapshot reflect.Value // copy of the old pointee
}

// presetPointers makes every exported tagged pointer field of the struct v point to a fresh,
// recognisable pointee (through the whole pointer chain) and records them.
func presetPointers(v reflect.Value, path string) []ptrPreset {
	var out []ptrPreset
	t := v.Type()
	for i := 0; i < t.NumField(); i++ {
		f := t.Field(i)
		if f.Tag.Get("xsel") == "" || !f.IsExported() || f.Type.Kind() != reflect.Pointer {
			continue
		}
		fv := v.Field(i)
		var mk func(pt reflect.Type) reflect.Value
		mk = func(pt reflect.Type) reflect.Value {
			p := reflect.New(pt.Elem())
			switch pt.Elem().Kind() {
			case reflect.Pointer:
				p.Elem().Set(mk(pt.Elem()))
			case reflect.String:
				p.Elem().SetString("old-pointee")
			case reflect.Int, reflect.Int8, reflect.Int16, reflect.Int32, reflect.Int64:
				p.Elem().SetInt(-99)
			case reflect.Uint, reflect.Uint8, reflect.Uint16, reflect.Uint32, reflect.Uint64:
				p.Elem().SetUint(99)
			case reflect.Float32, reflect.Float64:
				p.Elem().SetFloat(-9.5)
			}
			return p
		}
		p := mk(f.Type)
		fv.Set(p)
		// record every level of the chain
		cur := p
		for lvl := 0; cur.Kind() == reflect.Pointer && !cur.IsNil(); lvl++ {
			snap := reflect.New(cur.Type().Elem()).Elem()
			snap.Set(cur.Elem())
			out = append(out, ptrPreset{fmt.Sprintf("%s.%s(level %d)", path, f.Name, lvl), cur, snap})
			cur = cur.Elem()
		}
	}
	return out
}

func c19RowTypes() []reflect.Type {
	a := func() reflect.Type {
		type Row struct {
			ID   string `xsel:"@id"`
			Name string `xsel:"name()"`
			N    int    `xsel:"count(*)"`
		}
		return reflect.TypeOf(Row{})
	}()
	b := func() reflect.Type {
		type Row struct {
			Text string `xsel:"."`
			Note string
			Kids []string `xsel:"*"`
		}
		return reflect.TypeOf(Row{})
	}()
	c := func() reflect.Type {
		type Row struct {
			A float64 `xsel:"count(@*)"`
		}
		return reflect.TypeOf(Row{})
	}()
	d := func() reflect.Type {
		type Row struct {
			Note string
			Name string `xsel:"local-name()"`
			ID   string `xsel:"string(@id)"`
			Sub  *struct {
				V string `xsel:"."`
			} `xsel:"*[1]"`
		}
		return reflect.TypeOf(Row{})
	}()
	return []reflect.Type{a, b, c, d}
}
