package mon

import (
	"fmt"
	"strconv"
)

// Child dispatches the isolated child-process entry points.
func Child(args []string) int {
	if len(args) == 0 {
		return 2
	}
	switch args[0] {
	case "c10":
		n, _ := strconv.Atoi(args[2])
		return ChildC10(args[1], n)
	case "c15":
		seed, _ := strconv.ParseUint(args[1], 10, 64)
		shard, _ := strconv.Atoi(args[2])
		from, _ := strconv.Atoi(args[3])
		n, _ := strconv.Atoi(args[4])
		return ChildC15(seed, shard, from, n, args[5])
	case "c14lib":
		seed, _ := strconv.ParseUint(args[1], 10, 64)
		rounds, _ := strconv.Atoi(args[2])
		return ChildC14Lib(seed, rounds)
	}
	fmt.Println("unknown child kind", args[0])
	return 2
}
