package mon

import (
	"bytes"
	"fmt"
	"strings"

	"github.com/ChrisTrenkamp/xsel"
	"github.com/ChrisTrenkamp/xsel/parser"
	"github.com/ChrisTrenkamp/xsel/store"
	"golang.org/x/net/html"

	"xselverif/internal/adoc"
	"xselverif/internal/bridge"
	"xselverif/internal/evid"
	"xselverif/internal/refeval"
	"xselverif/internal/rng"
)

// C17 — ReadHtml mirrors the HTML5 parse tree without namespaces.

func init() {
	Register(&Monitor{
		ID: "C17",
		Rule: "per case a doctype-prefixed tag soup from a vocabulary that triggers the tree builder's insertion modes (tables, lists, formatting elements, select, template, raw-text and RCDATA elements, void elements, svg/math foreign content, stray end tags, attributes incl. xmlns, xmlns:x, prefixed and duplicate ones, comments everywhere incl. after </html>), depth up to 500 and width up to 5000 in the thorough tier -> xsel.ReadHtml from a reader whose delivery pattern (one Read / pseudo-random chunks / one byte per Read / a Read ending after every '>') is determined by the bytes; every twentieth case parses two pages with two parser.ReadHtml parsers pulled alternately, one event each, and each tree must mirror its own page; " +
			"oracle: html.Parse on the same bytes walked recursively by the monitor (doctype skipped, local names after the prefix, attributes minus xmlns declarations) compared by parallel walk with the cursor tree plus the C10 structural invariants: same nesting/order, equal text and comment data, every name in no namespace, no namespace nodes, nothing skipped or duplicated. distinct_nontrivial = distinct DOM shape signatures",
		Assumptions: []string{"names with more than one ':' are not generated (prefix stripping is then ambiguous)", "golang.org/x/net/html is the definition of the HTML5 tree (as the property states)"},
		NCases:      func(tier string) int { return map[string]int{"quick": 200000, "thorough": 2000000}[tier] },
		Case:        c17Case,
	})
}

var htmlTags = []string{"div", "p", "span", "b", "i", "a", "em", "table", "tr", "td", "th", "tbody", "thead", "caption", "colgroup", "col", "ul", "ol", "li", "dl", "dt", "dd",
	"select", "option", "optgroup", "template", "script", "style", "textarea", "title", "br", "img", "hr", "input", "meta", "link", "svg", "math", "g", "circle", "foreignObject", "mi", "mo", "annotation-xml",
	"h1", "h2", "form", "button", "nobr", "font", "body", "head", "html", "frameset", "noscript", "pre", "plaintext-not", "x-custom", "svg:rect", "x:", "o:", "o:p", "main", "section", "center", "applet", "marquee", "object"}

var htmlAttrs = []string{"id", "class", "href", "xmlns", "xmlns:x", "xmlns:xlink", "xlink:href", "x:a", "y:a", "id", "DATA-X", "data-é", "style", "viewBox", "definitionurl", "a:b", "xmlnsfoo", "xmlns-x", "xmlns_", "xmlnsx:y", "a:", "xml:lang"}

func genSoup(g *rng.R, sb *strings.Builder, depth, maxDepth int, budget *int) {
	n := g.Range(0, 4)
	if depth == 0 {
		n = g.Range(1, 5)
	}
	for i := 0; i < n && *budget > 0; i++ {
		*budget--
		switch k := g.Intn(14); {
		case k < 7:
			tag := rng.Pick(g, htmlTags)
			sb.WriteString("<" + tag)
			for a := g.Intn(3); a > 0; a-- {
				name := rng.Pick(g, htmlAttrs)
				switch g.Intn(4) {
				case 0:
					sb.WriteString(" " + name)
				case 1:
					sb.WriteString(" " + name + "=v" + fmt.Sprint(g.Intn(9)))
				default:
					sb.WriteString(" " + name + "=\"" + rng.Pick(g, []string{"", "a b", "http://www.w3.org/2000/svg", "&amp;", "x'y", "?a=1&amp;lt=2", "&amp;amp;", "&#38;#49;", "a&nbsp;b", "&amp;quot;"}) + "\"")
				}
			}
			if g.P(8) {
				sb.WriteString("/")
			}
			sb.WriteString(">")
			if depth < maxDepth && g.P(75) {
				genSoup(g, sb, depth+1, maxDepth, budget)
			}
			if g.P(75) {
				sb.WriteString("</" + tag + ">")
			}
		case k < 10:
			sb.WriteString(rng.Pick(g, []string{"text", " ", "a &amp; b", "&lt;", "é", "\n", "x<y", "&nbsp;", "]]>", "\x00z", "&amp;lt;", "&amp;#49;&amp;#50;", "&amp;amp;amp;", "&#38;gt;", "AT&T", "&amp;&lt;", "12", " 3.5 ", "&#x26;#x41;"}))
		case k < 12:
			sb.WriteString("<!--" + rng.Pick(g, []string{"c", "", " x ", "-", "a--b"}) + "-->")
		case k == 12:
			sb.WriteString("</" + rng.Pick(g, htmlTags) + ">") // stray end tag
		default:
			sb.WriteString(rng.Pick(g, []string{"<![CDATA[x]]>", "<?pi?>", "<!doctype html>", "</html>", "</body>", "<p>", "<table>", "<svg><![CDATA[y]]></svg>", "<style>a:after{content:\"&gt;&amp;lt;\"}</style>", "<script>if(a&amp;&amp;b&lt;c){}</script>", "<svg viewBox=\"0 0 1 1\"><clipPath id=c><foreignObject/></clipPath><linearGradient gradientUnits=x /></svg>", "<math definitionURL=u><mi>x</mi></math>", "<textarea>&amp;lt;</textarea>", "<title>&amp;amp;</title>"}))
		}
	}
}

func localAfterPrefix(name string) string {
	if i := strings.Index(name, ":"); i >= 0 {
		return name[i+1:]
	}
	return name
}

// domToDoc is the monitor's own recursive walk of html.Parse's DOM.
func domToDoc(n *html.Node, d *adoc.Doc, parent *adoc.Node) error {
	for c := n.FirstChild; c != nil; c = c.NextSibling {
		switch c.Type {
		case html.DoctypeNode:
		case html.ElementNode:
			e := d.AddElem(parent, "", localAfterPrefix(c.Data))
			e.NoXMLNS = true
			for _, a := range c.Attr {
				// xmlns declarations: plain ones, and the foreign-content form the tree
				// builder reports with Namespace "xmlns" (xmlns:xlink on svg/math)
				if a.Namespace == "xmlns" || (a.Namespace == "" && (a.Key == "xmlns" || strings.HasPrefix(a.Key, "xmlns:"))) {
					continue
				}
				d.AddAttr(e, "", localAfterPrefix(a.Key), a.Val)
			}
			if err := domToDoc(c, d, e); err != nil {
				return err
			}
		case html.TextNode:
			d.AddText(parent, c.Data)
		case html.CommentNode:
			d.AddComment(parent, c.Data)
		default:
			return fmt.Errorf("unexpected DOM node type %d", c.Type)
		}
	}
	return nil
}

func safeReadHtml(b []byte) (c xsel.Cursor, err error) {
	defer func() {
		if p := recover(); p != nil {
			c, err = nil, fmt.Errorf("PANIC escaped ReadHtml: %v", p)
		}
	}()
	rd, _ := hostileReader(b, contentMode(b)) // whole / chunks / single bytes / Reads ending after '>' — determined by the content
	return xsel.ReadHtml(rd)
}

// c17Alternating: two HTML parsers pulled alternately (one event each), as a program merging two
// pages does; each tree must still mirror its own page.
func c17Alternating(r *evid.Run, idx int, g *rng.R) {
	var srcs [2]string
	var docs [2]*adoc.Doc
	for k := 0; k < 2; k++ {
		var sb strings.Builder
		sb.WriteString("<!DOCTYPE html>")
		budget := g.Range(4, 40)
		genSoup(g, &sb, 0, g.Range(1, 5), &budget)
		srcs[k] = sb.String()
		dom, err := html.Parse(strings.NewReader(srcs[k]))
		if err != nil {
			return
		}
		docs[k] = adoc.NewDoc()
		if domToDoc(dom, docs[k], docs[k].Root) != nil {
			return
		}
		docs[k].Finish()
	}
	pa, ea := parser.ReadHtml(strings.NewReader(srcs[0]))
	pb, eb := parser.ReadHtml(strings.NewReader(srcs[1]))
	if ea != nil || eb != nil {
		r.Violate("rejected", map[string]any{"case": idx, "what": fmt.Sprintf("parser.ReadHtml failed: %v %v", ea, eb), "html": srcs[0]})
		return
	}
	ra, rb, ea, eb := buildAlternating(pa, pb)
	r.Eval(2)
	r.Count("alternating_parser_pairs", 1)
	for k, t := range []struct {
		root store.Cursor
		err  error
	}{{ra, ea}, {rb, eb}} {
		if t.err != nil {
			r.Violate("alternating/error", map[string]any{"case": idx, "what": fmt.Sprintf("page %d of two pages parsed alternately: %v", k, t.err), "html": srcs[k]})
			continue
		}
		if class, what := checkStore(t.root, docs[k]); class != "" {
			r.Violate("alternating/"+class, map[string]any{"case": idx, "what": fmt.Sprintf("page %d of two pages parsed alternately: %s", k, what), "html": srcs[k], "other_html": srcs[1-k]})
		}
	}
}

func c17Case(r *evid.Run, tier string, idx int, g *rng.R) {
	if idx%20 == 7 {
		c17Alternating(r, idx, g)
		return
	}
	var sb strings.Builder
	sb.WriteString(rng.Pick(g, []string{"<!DOCTYPE html>", "<!doctype html>\n", "<!DOCTYPE html PUBLIC \"-//W3C//DTD HTML 4.01//EN\">", "<!DOCTYPE html><!--first-->"}))
	budget := g.Range(3, 60)
	maxDepth := g.Range(1, 8)
	if tier == "thorough" && idx%50 == 0 {
		budget, maxDepth = 5000, 4
	}
	if tier == "thorough" && idx%50 == 1 {
		// deep chain
		for i := 0; i < 500; i++ {
			sb.WriteString(rng.Pick(g, []string{"<div>", "<span>", "<b>", "<ul><li>"}))
		}
	}
	if idx%40 == 2 {
		for i := 0; i < 120; i++ {
			sb.WriteString("<div>")
		}
	}
	genSoup(g, &sb, 0, maxDepth, &budget)
	if g.P(30) {
		sb.WriteString(rng.Pick(g, []string{"</body></html><!--after-->", "</html> tail", "</body><!--x--></html><!--y-->", "</html><p>late"}))
	}
	src := []byte(sb.String())
	dom, err := html.Parse(bytes.NewReader(src))
	if err != nil {
		r.Inconclusive("html.Parse failed: " + err.Error())
		return
	}
	d := adoc.NewDoc()
	if err := domToDoc(dom, d, d.Root); err != nil {
		r.Inconclusive(err.Error())
		return
	}
	d.Finish()
	root, err := safeReadHtml(src)
	r.Eval(1)
	text := string(src)
	if len(text) > 3000 {
		text = text[:3000] + "…"
	}
	if err != nil {
		r.Violate("rejected", map[string]any{"case": idx, "what": "ReadHtml failed on a document that starts with a doctype: " + errStr(err), "html": text})
		return
	}
	if class, what := checkStore(root, d); class != "" {
		r.Violate("tree/"+class, map[string]any{"case": idx, "what": what, "html": text, "expected_tree": head([]string{d.Dump()}, 1)})
		return
	}
	r.Sig(d.Shape(), len(d.All) >= 4)
	r.Count("nodes_compared", len(d.All))
	if len(text) < 400 {
		r.Sample("html", 3, map[string]any{"case": idx, "html": text, "tree": d.Dump()})
	}
}

// newHTMLWorld builds a tag soup, takes golang.org/x/net/html's tree of it as the reference
// document and realises it through xsel.ReadHtml (R-html). An error means that ReadHtml's tree
// differs from the reference in structure, a name or a value.
func newHTMLWorld(g *rng.R) (*world, string, error) {
	var sb strings.Builder
	sb.WriteString("<!DOCTYPE html>")
	budget := g.Range(4, 40)
	genSoup(g, &sb, 0, g.Range(1, 5), &budget)
	src := sb.String()
	dom, err := html.Parse(strings.NewReader(src))
	if err != nil {
		return nil, src, nil
	}
	d := adoc.NewDoc()
	if err := domToDoc(dom, d, d.Root); err != nil {
		return nil, src, nil
	}
	d.Finish()
	root, err := safeReadHtml([]byte(src))
	if err != nil {
		return nil, src, fmt.Errorf("ReadHtml failed: %v", err)
	}
	m, err := bridge.Build(root, d)
	if err != nil {
		return nil, src, err
	}
	return &world{d: d, m: m, env: &refeval.Env{Doc: d, NS: canonNS}, opts: nsOpts(canonNS)}, src, nil
}
