package mon

import (
	"bytes"
	"fmt"
	"hash/fnv"
	"reflect"
	"sort"
	"strings"

	"github.com/ChrisTrenkamp/xsel"

	"xselverif/internal/adoc"
	"xselverif/internal/bridge"
	"xselverif/internal/evid"
	"xselverif/internal/rng"
	"xselverif/internal/xast"
)

// C13 — queries are pure and deterministic (history monitor).

func init() {
	Register(&Monitor{
		ID: "C13",
		Rule: "per case one session: a shared document (through the store or through ReadXml), a pool of separately compiled expressions that are reused many times, shared binding maps assigned CLI-style (two namespace environments; per call one of four function libraries: shared, none, unset, or one that adds g() and shadows string-length()/count()), and a pool of caller-held NodeSets (earlier results — always those a custom function step built from the context it was handed —, reverse-ordered copies, sub-slices full[i:j] with spare capacity whose backing array holds sentinel cursors beyond len); a PRNG-determined history of Exec (from the root / inner nodes, with pooled NodeSets as variables and as the return value of a custom function, used as union operands, filter primaries, path heads and function arguments), Unmarshal and re-BuildExpr operations; " +
			"oracle after every operation: deep snapshot of the cursor tree through the public interface (identity, Pos, kind/name/value, list membership and order, Parent) equals the initial one; every pooled NodeSet's length, capacity and all cap elements are unchanged; the binding maps and the option slice handed to Unmarshal (including its spare capacity) are unchanged; a reflection-based structural hash of every Grammar (BSR forest and lexer, maps order-insensitively, pointers with cycle detection) is unchanged (checked every 16 operations and at the end); every (expression, start node, bindings) triple is re-executed at random later points and must equal its first result (values; node identity and order; four in ten Exec operations repeat an earlier call exactly); custom functions resolve only in the calls that bind them; two BuildExpr of one string agree, also when the second compilation happens sessions later in the same process (after thousands of other BuildExpr calls), judged on a fixed document. distinct_nontrivial = distinct (operation kind, expression) pairs with a non-empty result",
		NCases: func(tier string) int { return map[string]int{"quick": 800, "thorough": 5000}[tier] },
		Case:   c13Case,
	})
}

// treeSnapshot renders everything observable about a cursor tree.
func treeSnapshot(root xsel.Cursor) uint64 {
	h := fnv.New64a()
	var walk func(c xsel.Cursor)
	walk = func(c xsel.Cursor) {
		fmt.Fprintf(h, "%p|%d|%s|%p(", c, c.Pos(), bridge.Describe(c), c.Parent())
		for _, x := range c.Namespaces() {
			walk(x)
		}
		h.Write([]byte(";"))
		for _, x := range c.Attributes() {
			walk(x)
		}
		h.Write([]byte(";"))
		for _, x := range c.Children() {
			walk(x)
		}
		h.Write([]byte(")"))
	}
	walk(root)
	return h.Sum64()
}

// deepHash: structural hash of arbitrary values incl. unexported fields.
func deepHash(v reflect.Value, seen map[uintptr]bool, depth int) uint64 {
	h := fnv.New64a()
	w := func(s string) { h.Write([]byte(s)) }
	if !v.IsValid() || depth > 10000 {
		return 0
	}
	switch v.Kind() {
	case reflect.Ptr:
		if v.IsNil() {
			w("nil")
			break
		}
		p := v.Pointer()
		if seen[p] {
			w("cycle")
			break
		}
		seen[p] = true
		fmt.Fprintf(h, "*%x", deepHash(v.Elem(), seen, depth+1))
	case reflect.Interface:
		if v.IsNil() {
			w("nil")
			break
		}
		fmt.Fprintf(h, "i%s%x", v.Elem().Type().String(), deepHash(v.Elem(), seen, depth+1))
	case reflect.Struct:
		for i := 0; i < v.NumField(); i++ {
			fmt.Fprintf(h, "f%d:%x", i, deepHash(v.Field(i), seen, depth+1))
		}
	case reflect.Slice, reflect.Array:
		if v.Kind() == reflect.Slice && v.IsNil() {
			w("nilslice")
			break
		}
		fmt.Fprintf(h, "[%d", v.Len())
		for i := 0; i < v.Len(); i++ {
			fmt.Fprintf(h, ",%x", deepHash(v.Index(i), seen, depth+1))
		}
	case reflect.Map:
		var hs []uint64
		it := v.MapRange()
		for it.Next() {
			hs = append(hs, deepHash(it.Key(), seen, depth+1)*31+deepHash(it.Value(), seen, depth+1))
		}
		sort.Slice(hs, func(i, j int) bool { return hs[i] < hs[j] })
		fmt.Fprintf(h, "m%v", hs)
	case reflect.String:
		w("s" + v.String())
	case reflect.Bool:
		fmt.Fprintf(h, "b%v", v.Bool())
	case reflect.Int, reflect.Int8, reflect.Int16, reflect.Int32, reflect.Int64:
		fmt.Fprintf(h, "n%d", v.Int())
	case reflect.Uint, reflect.Uint8, reflect.Uint16, reflect.Uint32, reflect.Uint64, reflect.Uintptr:
		fmt.Fprintf(h, "u%d", v.Uint())
	case reflect.Float32, reflect.Float64:
		fmt.Fprintf(h, "f%v", v.Float())
	default:
		w(v.Kind().String())
	}
	return h.Sum64()
}

func grammarHash(g *xsel.Grammar) uint64 {
	return deepHash(reflect.ValueOf(g), map[uintptr]bool{}, 0)
}

type heldSet struct {
	ns    xsel.NodeSet // the caller's slice header
	snap  []xsel.Cursor
	l, c  int
	label string
}

func hold(ns xsel.NodeSet, label string) *heldSet {
	full := ns[:cap(ns)]
	return &heldSet{ns: ns, snap: append([]xsel.Cursor{}, full...), l: len(ns), c: cap(ns), label: label}
}

func (h *heldSet) changed() string {
	if len(h.ns) != h.l || cap(h.ns) != h.c {
		return "length/capacity changed"
	}
	full := h.ns[:cap(h.ns)]
	for i := range full {
		if full[i] != h.snap[i] {
			where := "within len"
			if i >= h.l {
				where = "in the spare capacity beyond len"
			}
			return fmt.Sprintf("element %d (%s) of the backing array changed from %s to %s", i, where, bridge.Describe(h.snap[i]), bridge.Describe(full[i]))
		}
	}
	return ""
}

type c13T1 struct {
	ID    string   `xsel:"@id"`
	Count int      `xsel:"count(*)"`
	Kids  []string `xsel:"*"`
	Self  string   `xsel:"."`
	Keep  string
}

func resultKey(res xsel.Result, err error) string {
	if err != nil {
		return "ERR"
	}
	switch v := res.(type) {
	case xsel.NodeSet:
		var sb strings.Builder
		sb.WriteString("ns:")
		for _, c := range v {
			fmt.Fprintf(&sb, "%p,", c)
		}
		return sb.String()
	case xsel.Number:
		return "n:" + showDouble(float64(v))
	case xsel.String:
		return "s:" + string(v)
	case xsel.Bool:
		return fmt.Sprintf("b:%v", bool(v))
	}
	return fmt.Sprintf("%T", res)
}

// c13Old remembers, per process, expressions compiled in earlier sessions together with their
// result on one fixed document: compiling the same string again much later — after thousands of
// other expressions went through BuildExpr — must give an equivalent query.
var c13Old struct {
	doc   xsel.Cursor
	items []c13OldItem
}

type c13OldItem struct {
	src, key string
	session  int
}

func c13FixedDoc() xsel.Cursor {
	if c13Old.doc == nil {
		c13Old.doc, _ = xsel.ReadXml(strings.NewReader(`<r xmlns:p="urn:a" xmlns:q="urn:b" id="1"><a id="2">x<b>2</b></a><p:a k="v">3</p:a><a> 4 </a><!--c--><?pi d?><q:c><a>5</a></q:c></r>`))
	}
	return c13Old.doc
}

func c13Case(r *evid.Run, tier string, idx int, g *rng.R) {
	if fixed := c13FixedDoc(); fixed != nil && len(c13Old.items) > 0 {
		for k := 0; k < 8; k++ {
			it := c13Old.items[g.Intn(len(c13Old.items))]
			gr, err := xsel.BuildExpr(it.src)
			key := "BUILD-ERR"
			if err == nil {
				res, xerr := Exec(fixed, &gr, nsOpts(canonNS)...)
				key = resultKey(res, xerr)
			}
			r.Eval(1)
			r.Count("late_recompilations", 1)
			if key != it.key {
				r.Violate("rebuild/late", map[string]any{"case": idx, "what": fmt.Sprintf("BuildExpr(%q) compiled again in session %d gives %s on the fixed document; compiled in session %d it gave %s", it.src, idx, trunc(key), it.session, trunc(it.key))})
			}
		}
	}
	o := adoc.GenOpts{MinNodes: 8, MaxNodes: 45, NS: g.Intn(3), Misc: g.P(50), XMLSafe: true, NoAdjText: true}
	d := adoc.Generate(g, o)
	var m *bridge.Map
	var err error
	viaXML := g.P(40)
	if viaXML {
		for _, n := range d.All {
			n.Local = strings.ReplaceAll(n.Local, "#", "h")
		}
		d.NormalizeNS(g)
		d.Finish()
		root, rerr := xsel.ReadXml(bytes.NewReader([]byte(d.ToXML(adoc.XMLOpts{}))))
		if rerr != nil {
			r.Inconclusive("ReadXml failed: " + rerr.Error())
			return
		}
		m, err = bridge.Build(root, d)
	} else {
		m, err = bridge.FromStore(d)
	}
	if err != nil {
		r.Inconclusive("tree mismatch: " + err.Error())
		return
	}
	viol := func(class, what string, hist []string) {
		r.Violate(class, map[string]any{"case": idx, "what": what, "history_tail": head(reverse(hist), 6), "document": d.Dump()})
	}
	elems, attrs, targets := vocab(d)
	cfg := &xast.Cfg{Elems: elems, Attrs: attrs, Prefixes: []string{"p", "q"}, Targets: targets, Axes: xast.Axes,
		MaxSteps: 3, MaxDepth: 1, PredPct: 30, Abbrev: 40, Unions: true, Filters: true, Funcs: c02Funcs, StrLits: []string{"1", "a"},
		Vars: []xast.VarSpec{{Local: "a", T: xast.TNodeSet}, {Local: "b", T: xast.TNodeSet}}}
	gen := &xast.Gen{R: g, C: cfg}
	// expression pool: separately compiled, reused
	type pooled struct {
		src string
		g   xsel.Grammar
		h   uint64
	}
	var exprs []*pooled
	addExpr := func(e xast.Expr) {
		s := xast.String(e)
		gr, err := xsel.BuildExpr(s)
		if err != nil {
			return
		}
		p := &pooled{src: s, g: gr}
		p.h = grammarHash(&p.g)
		exprs = append(exprs, p)
	}
	va, vb := xast.Var{Local: "a"}, xast.Var{Local: "b"}
	for i := 0; i < 14; i++ {
		addExpr(gen.NodeSetExpr(0, g.Bool()))
	}
	for _, e := range []xast.Expr{
		xast.Binary{Op: "|", L: va, R: vb}, xast.Binary{Op: "|", L: vb, R: va}, xast.Binary{Op: "|", L: va, R: xast.Abs(xast.DS(), xast.S("child", xast.AnyT()))},
		xast.Binary{Op: "|", L: xast.Binary{Op: "|", L: va, R: vb}, R: va},
		xast.Path{Head: va, HPred: []xast.Expr{xast.N(1)}}, xast.Path{Head: vb, HPred: []xast.Expr{xast.Fn("last")}}, xast.Path{Head: va, Steps: []xast.Step{xast.S("ancestor-or-self", xast.NodeT())}},
		xast.Fn("count", xast.Binary{Op: "|", L: va, R: vb}), xast.Fn("string", va), xast.Fn("sum", vb), xast.Binary{Op: "=", L: va, R: vb},
		xast.Path{Head: xast.Paren{X: xast.Binary{Op: "|", L: va, R: vb}}, HPred: []xast.Expr{xast.N(2)}, Steps: []xast.Step{xast.S("parent", xast.NodeT())}},
		xast.Fn("count", xast.Abs(xast.DS(), xast.S("child", xast.NodeT()))), xast.Fn("name", vb),
	} {
		addExpr(e)
	}
	// prefixed variable / function names: resolved through the bindings of each call
	for _, e := range []xast.Expr{
		xast.Fn("concat", xast.Var{Prefix: "p", Local: "v"}, xast.Lit{S: "-"}, xast.Call{Prefix: "p", Local: "f"}),
		xast.Var{Prefix: "q", Local: "v"},
		xast.Abs(xast.DS(), xast.S("child", xast.Test{Kind: xast.TNSAny, Prefix: "p"})),
		xast.Fn("count", xast.Abs(xast.DS(), xast.S("child", xast.Test{Kind: xast.TNSAny, Prefix: "q"}))),
		// a custom function that hands out a caller-held node-set (the one bound to $a): used as filter primary, path head, union operand, argument
		xast.Path{Head: xast.Call{Prefix: "p", Local: "nodes"}, HPred: []xast.Expr{xast.N(1)}}, xast.Path{Head: xast.Call{Prefix: "p", Local: "nodes"}, HPred: []xast.Expr{xast.Fn("last")}},
		xast.Path{Head: xast.Paren{X: xast.Call{Prefix: "p", Local: "nodes"}}, HPred: []xast.Expr{xast.N(2)}, Steps: []xast.Step{xast.S("parent", xast.NodeT())}},
		xast.Fn("count", xast.Call{Prefix: "p", Local: "nodes"}), xast.Binary{Op: "|", L: xast.Call{Prefix: "p", Local: "nodes"}, R: vb},
		xast.Path{Head: xast.Call{Prefix: "p", Local: "nodes"}, Steps: []xast.Step{xast.DS(), xast.S("child", xast.AnyT())}},
		// a custom function used as a step: it returns the node-set it was handed as its context
		xast.Path{Abs: true, Steps: []xast.Step{xast.DS(), {Fn: &xast.Call{Prefix: "p", Local: "ctx"}}}},
		xast.Path{Abs: true, Steps: []xast.Step{xast.S("descendant-or-self", xast.NodeT()), {Fn: &xast.Call{Prefix: "p", Local: "ctx"}}}},
		xast.Path{Abs: true, Steps: []xast.Step{xast.DS(), xast.S("child", xast.AnyT()), {Fn: &xast.Call{Prefix: "p", Local: "ctx"}}}},
		xast.Path{Steps: []xast.Step{xast.S("descendant", xast.NodeT()), {Fn: &xast.Call{Prefix: "p", Local: "ctx"}}}},
		// names that only some calls bind as custom functions (g) or shadow (string-length, count)
		xast.Fn("g"), xast.Fn("string-length", xast.Lit{S: "abc"}), xast.Fn("count", xast.Abs(xast.DS(), xast.S("child", xast.NodeT()))),
		xast.Fn("concat", xast.Fn("string-length", xast.Lit{S: "abcd"}), xast.Lit{S: "/"}, xast.Fn("count", xast.Abs(xast.S("child", xast.NodeT())))),
	} {
		addExpr(e)
	}
	if len(exprs) == 0 {
		return
	}
	// held node-sets
	var held []*heldSet
	sentinel := m.Root
	mkHeld := func(base xsel.NodeSet, label string) {
		if len(base) == 0 {
			held = append(held, hold(xsel.NodeSet{}, label+"/empty"))
			return
		}
		// reverse-ordered copy with spare capacity holding sentinels
		rev := make(xsel.NodeSet, len(base), len(base)+6)
		for i := range base {
			rev[len(base)-1-i] = base[i]
		}
		full := rev[:cap(rev)]
		for i := len(rev); i < cap(rev); i++ {
			full[i] = sentinel
		}
		held = append(held, hold(rev, label+"/rev+spare"))
		// arbitrary order
		sh := append(xsel.NodeSet{}, base...)
		rng.Shuffle(g, sh)
		held = append(held, hold(sh, label+"/shuffled"))
		// forward copy and a sub-slice of it (shares the backing array, spare capacity = rest of the array)
		fw := append(xsel.NodeSet{}, base...)
		held = append(held, hold(fw, label+"/fwd"))
		if len(fw) >= 2 {
			i := g.Intn(len(fw) - 1)
			j := i + 1 + g.Intn(len(fw)-i-1)
			held = append(held, hold(fw[i:j], label+"/sub"))
		}
	}
	all := xsel.NodeSet(m.Order)
	mkHeld(all, "all")
	var some xsel.NodeSet
	for _, c := range m.Order {
		if g.P(30) {
			some = append(some, c)
		}
	}
	mkHeld(some, "some")
	mkHeld(nil, "none")
	// shared binding maps, assigned CLI-style
	sharedNS := map[string]string{"p": canonNS["p"], "q": canonNS["q"], "r": canonNS["r"]}
	// a second environment binds the same prefixes to other URIs; both are used alternately
	altNS := map[string]string{"p": canonNS["q"], "q": canonNS["r"], "r": canonNS["p"]}
	sharedVars := map[xsel.XmlName]xsel.Result{}
	sharedFns := map[xsel.XmlName]xsel.Function{}
	for _, u := range []string{canonNS["p"], canonNS["q"], canonNS["r"]} {
		uri := u
		sharedVars[xsel.XmlName{Space: uri, Local: "v"}] = xsel.String("var@" + uri)
		sharedFns[xsel.XmlName{Space: uri, Local: "f"}] = func(ctx xsel.Context, args ...xsel.Result) (xsel.Result, error) {
			return xsel.String("fn@" + uri), nil
		}
		sharedFns[xsel.XmlName{Space: uri, Local: "ctx"}] = func(ctx xsel.Context, args ...xsel.Result) (xsel.Result, error) {
			// whatever the library hands the function as its context, or a prefix of it
			if ns, ok := ctx.Result().(xsel.NodeSet); ok && len(ns) > 3 && len(args) == 0 {
				return ns[:len(ns)-1], nil
			}
			return ctx.Result(), nil
		}
		sharedFns[xsel.XmlName{Space: uri, Local: "nodes"}] = func(ctx xsel.Context, args ...xsel.Result) (xsel.Result, error) {
			// the caller's own slice, not a copy
			return sharedVars[xsel.XmlName{Local: "a"}], nil
		}
	}
	// function bindings differ between calls: the shared library, none at all, or a library that
	// additionally binds g() and shadows string-length() and count()
	noFns := map[xsel.XmlName]xsel.Function{}
	shadowFns := map[xsel.XmlName]xsel.Function{}
	for k, v := range sharedFns {
		shadowFns[k] = v
	}
	for _, nm := range []string{"g", "string-length", "count"} {
		name := nm
		shadowFns[xsel.XmlName{Local: name}] = func(ctx xsel.Context, args ...xsel.Result) (xsel.Result, error) {
			return xsel.String("custom-" + name), nil
		}
	}
	fnMode := 0
	useAlt := false
	apply := func(c *xsel.ContextSettings) {
		if useAlt {
			c.NamespaceDecls = altNS
		} else {
			c.NamespaceDecls = sharedNS
		}
		c.Variables = sharedVars
		switch fnMode {
		case 0:
			c.FunctionLibrary = sharedFns
		case 1:
			c.FunctionLibrary = noFns
		case 2:
			c.FunctionLibrary = shadowFns
		case 3: // leave whatever the library defaults to
		}
	}
	mapsKey := func() string {
		var ks []string
		for k, v := range sharedNS {
			ks = append(ks, "ns:"+k+"="+v)
		}
		for k, v := range altNS {
			ks = append(ks, "alt:"+k+"="+v)
		}
		for k, v := range sharedVars {
			ks = append(ks, fmt.Sprintf("var:%v=%s", k, resultKey(v, nil)))
		}
		ks = append(ks, fmt.Sprintf("fns:%d/%d/%d", len(sharedFns), len(noFns), len(shadowFns)))
		sort.Strings(ks)
		return strings.Join(ks, ";")
	}

	tree0 := treeSnapshot(m.Root)
	type firstRes struct {
		key string
		at  int
	}
	first := map[string]firstRes{}
	var hist []string
	nops := 200
	if tier == "thorough" {
		nops = g.Range(200, 1200)
	}
	type execCfg struct {
		ei, si, fn int
		ha, hb     *heldSet
		alt        bool
	}
	var past []execCfg
	for op := 0; op < nops; op++ {
		ha, hb := rng.Pick(g, held), rng.Pick(g, held)
		useAlt = g.P(40)
		fnMode = rng.Pick(g, []int{0, 0, 0, 1, 2, 2, 3})
		kind := g.Intn(10)
		// four in ten Exec operations repeat an earlier call exactly
		var again *execCfg
		if kind < 7 && len(past) > 0 && g.P(40) {
			again = &past[g.Intn(len(past))]
			ha, hb, useAlt, fnMode = again.ha, again.hb, again.alt, again.fn
		}
		sharedVars[xsel.XmlName{Local: "a"}] = ha.ns
		sharedVars[xsel.XmlName{Local: "b"}] = hb.ns
		before := mapsKey()
		desc := ""
		switch {
		case kind < 7: // Exec
			ei := g.Intn(len(exprs))
			p := exprs[ei]
			start := m.Root
			si := 0
			if g.P(35) {
				si = g.Intn(len(m.Order))
			}
			if again != nil {
				ei, si = again.ei, again.si
				p = exprs[ei]
			} else {
				past = append(past, execCfg{ei, si, fnMode, ha, hb, useAlt})
			}
			start = m.Order[si]
			res, err := Exec(start, &p.g, apply)
			r.Eval(1)
			desc = fmt.Sprintf("op %d: Exec(node#%d, %s) with $a=%s $b=%s alt-bindings=%v functions=%s", op, si, p.src, ha.label, hb.label, useAlt, []string{"shared", "none", "shared+g+shadowed builtins", "unset"}[fnMode])
			r.Tab("function_bindings", []string{"shared", "none", "shadowing", "unset"}[fnMode], 1)
			// custom functions exist only in the calls that bind them
			switch p.src {
			case "g()":
				if (err == nil) != (fnMode == 2) || (err == nil && res.String() != "custom-g") {
					viol("determinism/functions", fmt.Sprintf("%s returned %s (%v); g() is bound only in calls with the shadowing library", desc, trunc(resultKey(res, err)), errStr(err)), append(hist, desc))
				}
			case "string-length('abc')":
				want := "3"
				if fnMode == 2 {
					want = "custom-string-length"
				}
				if err != nil || res.String() != want {
					viol("determinism/functions", fmt.Sprintf("%s returned %s, expected %s under this call's function bindings", desc, trunc(resultKey(res, err)), want), append(hist, desc))
				}
			}
			if strings.Contains(p.src, "p:f()") && (fnMode == 1 || fnMode == 3) && err == nil {
				viol("determinism/functions", fmt.Sprintf("%s succeeded (%s) although this call binds no function p:f", desc, trunc(resultKey(res, err))), append(hist, desc))
			}
			// prefixed names must resolve through this call's bindings, whatever ran before
			if strings.HasPrefix(p.src, "concat($p:v") && err == nil && (fnMode == 0 || fnMode == 2) {
				uri := sharedNS["p"]
				if useAlt {
					uri = altNS["p"]
				}
				if want := "var@" + uri + "-fn@" + uri; res.String() != want {
					viol("determinism/bindings", fmt.Sprintf("%s returned %q, expected %q under this call's bindings", desc, res.String(), want), append(hist, desc))
				}
			}
			key := fmt.Sprintf("%d|%d|%p|%p|%v|%d", ei, si, ha, hb, useAlt, fnMode)
			rk := resultKey(res, err)
			if f, ok := first[key]; ok {
				r.Count("repeat_executions", 1)
				if f.key != rk {
					viol("determinism", fmt.Sprintf("%s returned a different result than the same call at op %d: %s vs %s", desc, f.at, trunc(rk), trunc(f.key)), append(hist, desc))
				}
			} else {
				first[key] = firstRes{rk, op}
			}
			if ns, ok := res.(xsel.NodeSet); ok && len(ns) > 0 {
				r.Sig("exec|"+p.src, true)
				if (g.P(10) || strings.Contains(p.src, ":ctx()")) && len(held) < 60 {
					// keep the result as a caller-held set (and a sub-slice of it)
					held = append(held, hold(ns, fmt.Sprintf("result-of-op%d", op)))
					if len(ns) >= 3 {
						held = append(held, hold(ns[1:2], fmt.Sprintf("subslice-of-op%d", op)))
					}
				}
			}
		case kind < 9: // Unmarshal
			el := m.Order[g.Intn(len(m.Order))]
			var t c13T1
			t.Keep = "sentinel"
			t.Kids = []string{"pre"}
			// the options are a slice the caller keeps (with spare capacity behind the part it passes)
			hits := make([]int, 3)
			full := []xsel.ContextApply{
				func(c *xsel.ContextSettings) { hits[0]++; apply(c) },
				func(c *xsel.ContextSettings) { hits[1]++ },
				func(c *xsel.ContextSettings) { hits[2]++ },
			}
			func() {
				defer func() { recover() }()
				xsel.Unmarshal(xsel.NodeSet{el}, &t, full[:2]...)
			}()
			r.Eval(1)
			desc = fmt.Sprintf("op %d: Unmarshal(%s)", op, bridge.Describe(el))
			for k := range hits {
				hits[k] = 0
			}
			scratch := xsel.ContextSettings{NamespaceDecls: map[string]string{}, Variables: map[xsel.XmlName]xsel.Result{}, FunctionLibrary: map[xsel.XmlName]xsel.Function{}}
			for k := range full {
				full[k](&scratch)
			}
			if hits[0] != 1 || hits[1] != 1 || hits[2] != 1 {
				viol("options-mutated", fmt.Sprintf("the caller's option slice changed during %s: calling its three entries afterwards reaches the caller's own functions %v times (expected once each)", desc, hits), append(hist, desc))
			}
			r.Sig("unmarshal|"+bridge.Describe(el), true)
		default: // BuildExpr again
			p := rng.Pick(g, exprs)
			g2, err := xsel.BuildExpr(p.src)
			r.Eval(1)
			desc = fmt.Sprintf("op %d: BuildExpr(%s) again", op, p.src)
			if err != nil {
				viol("rebuild", desc+" failed: "+errStr(err), hist)
			} else {
				r1, e1 := Exec(m.Root, &p.g, apply)
				r2, e2 := Exec(m.Root, &g2, apply)
				if resultKey(r1, e1) != resultKey(r2, e2) {
					viol("rebuild", fmt.Sprintf("%s: the two compiled queries disagree: %s vs %s", desc, trunc(resultKey(r1, e1)), trunc(resultKey(r2, e2))), hist)
				}
				r.Sig("rebuild|"+p.src, true)
			}
		}
		hist = append(hist, desc)
		if len(hist) > 12 {
			hist = hist[len(hist)-12:]
		}
		// observers
		if t := treeSnapshot(m.Root); t != tree0 {
			viol("tree-mutated", "the document tree changed after "+desc, hist)
			tree0 = t
		}
		for _, h := range held {
			if msg := h.changed(); msg != "" {
				viol("nodeset-mutated", fmt.Sprintf("caller-held NodeSet %s: %s after %s", h.label, msg, desc), hist)
				*h = *hold(h.ns, h.label)
			}
		}
		if after := mapsKey(); after != before {
			viol("bindings-mutated", "binding maps changed after "+desc, hist)
		}
		if op%16 == 15 || op == nops-1 {
			for _, p := range exprs {
				r.Count("grammar_hash_checks", 1)
				if h := grammarHash(&p.g); h != p.h {
					viol("grammar-mutated", fmt.Sprintf("compiled expression %s changed structurally after %s", p.src, desc), hist)
					p.h = h
				}
			}
		}
	}
	// churn: many further distinct expressions go through BuildExpr in this process
	for k := 0; k < 60; k++ {
		xsel.BuildExpr(fmt.Sprintf("count(//a[%d]) + %d", 1+k%3, idx*100+k))
	}
	r.Count("churn_compilations", 60)
	if fixed := c13FixedDoc(); fixed != nil {
		for k := 0; k < 6 && k < len(exprs); k++ {
			p := exprs[g.Intn(len(exprs))]
			res, xerr := Exec(fixed, &p.g, nsOpts(canonNS)...)
			if len(c13Old.items) < 4096 {
				c13Old.items = append(c13Old.items, c13OldItem{p.src, resultKey(res, xerr), idx})
			} else {
				c13Old.items[g.Intn(len(c13Old.items))] = c13OldItem{p.src, resultKey(res, xerr), idx}
			}
		}
	}
	r.Count("operations", nops)
	r.Count("held_nodesets", len(held))
	r.Sample("session", 2, map[string]any{"case": idx, "via_xml": viaXML, "operations": nops, "expressions": len(exprs), "held_nodesets": len(held), "history_tail": hist[len(hist)-3:]})
}

func reverse(xs []string) []string {
	out := make([]string, len(xs))
	for i := range xs {
		out[len(xs)-1-i] = xs[i]
	}
	return out
}

func trunc(s string) string {
	if len(s) > 120 {
		return s[:120] + "…"
	}
	return s
}
