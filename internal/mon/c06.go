package mon

import (
	"fmt"
	"math"
	"strconv"
	"strings"

	"github.com/ChrisTrenkamp/xsel"

	"xselverif/internal/adoc"
	"xselverif/internal/bridge"
	"xselverif/internal/evid"
	"xselverif/internal/refeval"
	"xselverif/internal/rng"
	"xselverif/internal/xast"
)

// C06 — arithmetic and numeric functions are IEEE-754 double arithmetic.

func init() {
	Register(&Monitor{
		ID: "C06",
		Rule: "per case: '$x op $y' for + - * div mod and '-$x' over all boundary x boundary pairs of a sampled boundary subset plus random pairs (bit patterns, divisors in (-1,1), ties, >2^63), floor/ceiling/round over boundary doubles, every k+-0.5 for |k|<=20 and values around 2^52..2^63, sum()/count() over node-sets of numeric, fractional, negative, whitespace-padded and non-numeric text; arithmetic whose operands are bare element names (among them names spelled like numerals of other languages: nan, inf, Infinity, NaN, e) evaluated from the parent element against the reference model; node-set operands bound as variables and returned by a custom function in shuffled slice order (the operand is the first node in document order); " +
			"oracle: Go IEEE arithmetic written independently (math.Mod, floor(x)+tie rule, float summation in document order), bit-pattern comparison incl. sign of zero for the operators, NaN-aware without zero sign for round/floor/ceiling; any error (in particular 'xpath query panic') is a violation. distinct_nontrivial = distinct (operation, operand classes, result class)",
		Assumptions: []string{"the sign of zero is not judged for round/floor/ceiling (the statement is silent on it)"},
		NCases:      func(tier string) int { return map[string]int{"quick": 2000, "thorough": 80000}[tier] },
		Case:        c06Case,
	})
}

func c06Case(r *evid.Run, tier string, idx int, g *rng.R) {
	// numeric document for sum/count
	var vals []string
	for i := g.Range(0, 8); i > 0; i-- {
		switch g.Intn(8) {
		case 0:
			vals = append(vals, fmt.Sprintf("%d.%d", g.Intn(100), g.Intn(1000)))
		case 1:
			vals = append(vals, fmt.Sprintf("-%d.5", g.Intn(100)))
		case 2:
			vals = append(vals, fmt.Sprintf(" %d\n", g.Intn(100)))
		case 3:
			if g.P(30) {
				vals = append(vals, rng.Pick(g, []string{"abc", "", "1e3", "NaN"}))
			} else {
				vals = append(vals, "0.1")
			}
		case 5:
			// numerals beyond the range of a double (±Infinity), which make later NaN/opposite-infinity terms matter
			vals = append(vals, rng.Pick(g, []string{"1" + strings.Repeat("0", 400), "-1" + strings.Repeat("0", 400), "9" + strings.Repeat("9", 320) + ".5", "n/a"}))
		case 4:
			vals = append(vals, rng.Pick(g, []string{"9007199254740993", "1000000000000000000000", "0.0000001", "-0", "2.50", "3.14", "0.30"}))
		default:
			vals = append(vals, fmt.Sprint(g.Range(-50, 50)))
		}
	}
	d, vnodes := valueDoc(vals)
	w, err := newWorld(d)
	if err != nil {
		r.Inconclusive("store tree mismatch: " + err.Error())
		return
	}
	viol := func(class, what string) {
		r.Violate(class, map[string]any{"case": idx, "what": what, "document": d.Dump()})
	}
	evalNum := func(e xast.Expr, binds ...xsel.ContextApply) (float64, bool) {
		got, _, err := w.libEval(d.Root, xast.String(e), binds...)
		r.Eval(1)
		if err != nil {
			cls := "error"
			if strings.Contains(err.Error(), "xpath query panic") {
				cls = "xpath-query-panic"
			}
			viol(cls+"/"+opOf(e), fmt.Sprintf("%s failed: %s", describe(e, binds), errStr(err)))
			return 0, false
		}
		f, ok := got.(float64)
		if !ok {
			viol("type/"+opOf(e), fmt.Sprintf("%s returned %s", xast.String(e), bridge.Show(got)))
			return 0, false
		}
		return f, true
	}
	_ = evalNum
	x, y := xast.Var{Local: "x"}, xast.Var{Local: "y"}
	// operand pairs
	var pairs [][2]float64
	sub := make([]float64, 0, 12)
	for i := 0; i < 12; i++ {
		sub = append(sub, rng.Pick(g, boundaryDoubles))
	}
	for _, a := range sub {
		for _, b := range sub {
			pairs = append(pairs, [2]float64{a, b})
		}
	}
	for i := 0; i < 120; i++ {
		pairs = append(pairs, [2]float64{genDouble(g), genDouble(g)})
	}
	for i := 0; i < 30; i++ {
		pairs = append(pairs, [2]float64{genDouble(g), (g.F01() - 0.5) * 2})
	}
	ops := []struct {
		op string
		f  func(a, b float64) float64
	}{
		{"+", func(a, b float64) float64 { return a + b }},
		{"-", func(a, b float64) float64 { return a - b }},
		{"*", func(a, b float64) float64 { return a * b }},
		{"div", func(a, b float64) float64 { return a / b }},
		{"mod", math.Mod},
	}
	for _, p := range pairs {
		binds := []xsel.ContextApply{xsel.WithVariable("x", xsel.Number(p[0])), xsel.WithVariable("y", xsel.Number(p[1]))}
		for _, o := range ops {
			e := xast.Binary{Op: o.op, L: x, R: y}
			got, _, err := w.libEval(d.Root, xast.String(e), binds...)
			r.Eval(1)
			want := o.f(p[0], p[1])
			r.Sig(fmt.Sprintf("%s|%s|%s|%s", o.op, dclass(p[0]), dclass(p[1]), dclass(want)), true)
			r.Tab("operator", o.op, 1)
			if err != nil {
				cls := "error/"
				if strings.Contains(err.Error(), "xpath query panic") {
					cls = "xpath-query-panic/"
				}
				viol(cls+o.op, fmt.Sprintf("%s %s %s failed: %s", showDouble(p[0]), o.op, showDouble(p[1]), errStr(err)))
				continue
			}
			f, ok := got.(float64)
			if !ok || !refeval.SameNumber(f, want, true) {
				viol("arith/"+o.op, fmt.Sprintf("%s %s %s = %s, expected %s", showDouble(p[0]), o.op, showDouble(p[1]), bridge.Show(got), showDouble(want)))
			}
			// the typed entry point returns the same number (NaN, infinities and -0 included) and no error
			if math.IsNaN(want) || math.IsInf(want, 0) || want == 0 || g.P(10) {
				if gr, berr := Build(xast.String(e)); berr == nil {
					fn, nerr := xsel.ExecAsNumber(w.m.Root, gr, append(append([]xsel.ContextApply{}, w.opts...), binds...)...)
					r.Eval(1)
					r.Tab("operator", "ExecAsNumber:"+o.op, 1)
					if nerr != nil || !refeval.SameNumber(fn, want, true) {
						viol("arith/ExecAsNumber/"+o.op, fmt.Sprintf("ExecAsNumber(%s %s %s) = %s (%v), expected %s", showDouble(p[0]), o.op, showDouble(p[1]), showDouble(fn), errStr(nerr), showDouble(want)))
					}
				}
			}
		}
		got, _, err := w.libEval(d.Root, xast.String(xast.Neg{X: x}), binds...)
		r.Eval(1)
		if f, ok := got.(float64); err != nil || !ok || !refeval.SameNumber(f, -p[0], true) {
			viol("arith/neg", fmt.Sprintf("-(%s) = %s (%v), expected %s", showDouble(p[0]), bridge.Show(got), errStr(err), showDouble(-p[0])))
		}
	}
	// rounding functions
	var rvals []float64
	rvals = append(rvals, boundaryDoubles...)
	for k := -20; k <= 20; k++ {
		rvals = append(rvals, float64(k)+0.5, float64(k)-0.5, float64(k), math.Nextafter(float64(k)+0.5, 100), math.Nextafter(float64(k)+0.5, -100))
	}
	for i := 0; i < 40; i++ {
		rvals = append(rvals, math.Ldexp(g.F01()+1, g.Range(51, 64))*float64(1-2*g.Intn(2)), genDouble(g))
	}
	for _, v := range rvals {
		bind := xsel.WithVariable("x", xsel.Number(v))
		for _, fn := range []string{"floor", "ceiling", "round"} {
			var want float64
			switch fn {
			case "floor":
				want = math.Floor(v)
			case "ceiling":
				want = math.Ceil(v)
			default:
				want = refeval.Round(v, refeval.Quirks{})
			}
			got, _, err := w.libEval(d.Root, xast.String(xast.Fn(fn, x)), bind)
			r.Eval(1)
			r.Sig(fmt.Sprintf("%s|%s|%s", fn, dclass(v), dclass(want)), true)
			r.Tab("function", fn, 1)
			if err != nil {
				cls := "error/"
				if strings.Contains(err.Error(), "xpath query panic") {
					cls = "xpath-query-panic/"
				}
				viol(cls+fn, fmt.Sprintf("%s(%s) failed: %s", fn, showDouble(v), errStr(err)))
				continue
			}
			f, ok := got.(float64)
			if ok && refeval.SameNumber(f, want, false) {
				continue
			}
			if fn == "round" && ok && r.Open("round-neg-tie") && refeval.SameNumber(f, refeval.Round(v, refeval.Quirks{RoundNegTieAway: true}), false) {
				r.KnownHit("round-neg-tie", fmt.Sprintf("round(%s) = %s, expected %s", showDouble(v), showDouble(f), showDouble(want)))
				continue
			}
			viol("round/"+fn, fmt.Sprintf("%s(%s) = %s, expected %s", fn, showDouble(v), bridge.Show(got), showDouble(want)))
		}
	}
	// bare element names as operands: the operand is number() of the selected element's string-value
	// whatever the name looks like
	{
		names := []string{"n", "price", "nan", "inf", "Infinity", "NaN", "infinity", "Inf", "INF", "nAn", "e", "E", "x1", "i", "d", "hex"}
		rng.Shuffle(g, names)
		nd := adoc.NewDoc()
		top := nd.AddElem(nd.Root, "", "stats")
		for _, nm := range names[:6] {
			el := nd.AddElem(top, "", nm)
			nd.AddText(el, rng.Pick(g, []string{"2", "3", "7", "0.5", "-4", "10", " 6 ", "x", ""}))
		}
		nd.Finish()
		if nw, err := newWorld(nd); err == nil {
			nm := func() xast.Expr {
				return xast.Rel(xast.Step{Axis: "child", Test: xast.NameT("", rng.Pick(g, names[:7])), Abbrev: true})
			}
			for i := 0; i < 14; i++ {
				op := rng.Pick(g, []string{"+", "-", "*", "div", "mod"})
				var e xast.Expr
				switch g.Intn(5) {
				case 0:
					e = xast.Binary{Op: op, L: nm(), R: nm()}
				case 1:
					e = xast.Binary{Op: op, L: nm(), R: xast.N(float64(g.Range(1, 4)))}
				case 2:
					e = xast.Binary{Op: op, L: xast.N(float64(g.Range(1, 4))), R: nm()}
				case 3:
					e = xast.Neg{X: nm()}
				default:
					e = xast.Binary{Op: op, L: xast.Binary{Op: rng.Pick(g, []string{"+", "*"}), L: nm(), R: nm()}, R: nm()}
				}
				if v, ok := nw.check(r, "name-operand/"+opOf(e), idx, top, e, true); ok {
					r.Tab("operator", "name-operand:"+opOf(e), 1)
					r.Sig("nameop|"+xast.String(e)+"|"+bridge.Show(v), true)
				}
			}
		}
	}
	// node-set operands handed in by the caller (variables, custom functions) in arbitrary slice
	// order: the operand is number() of the first node in document order, wherever it sits
	for i := 0; i < 8; i++ {
		var pick []*adoc.Node
		for _, vn := range vnodes {
			if g.P(40) {
				pick = append(pick, vn)
			}
		}
		if len(pick) < 3 {
			continue
		}
		set := refeval.NodeSet(adoc.SortDoc(pick))
		lib := append(xsel.NodeSet{}, w.m.Lib(set).(xsel.NodeSet)...)
		rng.Shuffle(g, lib)
		w.env.Vars = map[refeval.Name]refeval.Value{{Local: "s"}: set}
		w.env.Funcs = map[refeval.Name]refeval.Func{{Local: "pick"}: func(refeval.Ctx, refeval.NodeSet, []refeval.Value) (refeval.Value, error) { return set, nil }}
		binds := []xsel.ContextApply{xsel.WithVariable("s", lib), xsel.WithFunction("pick", func(xsel.Context, ...xsel.Result) (xsel.Result, error) { return lib, nil })}
		sv := xast.Var{Local: "s"}
		for _, e := range []xast.Expr{
			xast.Binary{Op: "+", L: sv, R: xast.N(0)}, xast.Neg{X: sv}, xast.Fn("ceiling", sv), xast.Binary{Op: "*", L: sv, R: xast.N(2)}, xast.Binary{Op: "mod", L: sv, R: xast.N(3)},
			xast.Fn("number", sv), xast.Fn("floor", xast.Fn("pick")), xast.Binary{Op: "-", L: xast.Fn("pick"), R: sv}, xast.Binary{Op: "div", L: xast.N(1), R: xast.Fn("pick")},
		} {
			if v, ok := w.check(r, "nodeset-operand/"+opOf(e), idx, d.Root, e, true, binds...); ok {
				r.Tab("operator", "caller-ordered-node-set:"+opOf(e), 1)
				r.Sig("nsop|"+opOf(e)+"|"+bridge.Show(v), true)
			}
		}
		w.env.Vars, w.env.Funcs = nil, nil
	}
	// values of a Result type defined by the embedding program: an operand is what its Number() says
	for i := 0; i < 6; i++ {
		f := rng.Pick(g, []float64{2.5e6, 1e21, 1.5e-7, math.Inf(1), math.Inf(-1), 12.5, -3, 0, math.NaN(), 4503599627370497})
		rd := c06Reading{f: f, s: rng.Pick(g, []string{strconv.FormatFloat(f, 'g', -1, 64), fmt.Sprint(f) + " m", "n/a", "1,5"})}
		binds := []xsel.ContextApply{xsel.WithVariable("g", rd), xsel.WithFunction("reading", func(xsel.Context, ...xsel.Result) (xsel.Result, error) { return rd, nil })}
		gv := xast.Var{Local: "g"}
		cases := []struct {
			e    xast.Expr
			want float64
		}{
			{xast.Binary{Op: "+", L: gv, R: xast.N(1)}, f + 1}, {xast.Binary{Op: "mod", L: gv, R: xast.N(7)}, math.Mod(f, 7)}, {xast.Binary{Op: "*", L: xast.Fn("reading"), R: xast.N(2)}, f * 2},
			{xast.Neg{X: gv}, -f}, {xast.Fn("floor", gv), math.Floor(f)}, {xast.Binary{Op: "div", L: gv, R: xast.N(2)}, f / 2}, {xast.Fn("number", xast.Fn("reading")), f}, {xast.Binary{Op: "-", L: xast.N(1), R: gv}, 1 - f},
		}
		for _, c := range cases {
			got, _, err := w.libEval(d.Root, xast.String(c.e), binds...)
			r.Eval(1)
			r.Tab("operator", "caller-defined-result:"+opOf(c.e), 1)
			if fv, ok := got.(float64); err != nil || !ok || !refeval.SameNumber(fv, c.want, false) {
				viol("caller-result/"+opOf(c.e), fmt.Sprintf("%s with a caller-defined Result whose Number() is %s and String() is %q = %s (%v), expected %s", xast.String(c.e), showDouble(f), rd.s, bridge.Show(got), errStr(err), showDouble(c.want)))
			}
		}
	}
	// sum / count over node-sets
	for i := 0; i < 12; i++ {
		var cond xast.Expr = xast.Fn("false")
		var want float64
		n := 0
		for j, vn := range vnodes {
			if g.P(50) {
				cond = xast.Binary{Op: "or", L: cond, R: xast.Binary{Op: "=", L: xast.Fn("position"), R: xast.N(float64(j + 1))}}
				want += refeval.StringToNumber(vn.StringValue())
				n++
			}
		}
		p := xast.Abs(xast.S("child", xast.NameT("", "r")), xast.S("child", xast.NameT("", "v"), cond))
		for _, fn := range []string{"sum", "count"} {
			w2 := want
			if fn == "count" {
				w2 = float64(n)
			}
			got, _, err := w.libEval(d.Root, xast.String(xast.Fn(fn, p)))
			r.Eval(1)
			r.Sig(fmt.Sprintf("%s|n=%d|%s", fn, n, dclass(w2)), true)
			r.Tab("function", fn, 1)
			if f, ok := got.(float64); err != nil || !ok || !refeval.SameNumber(f, w2, false) {
				cls := fn
				if err != nil && strings.Contains(err.Error(), "xpath query panic") {
					cls = "xpath-query-panic/" + fn
				}
				viol(cls, fmt.Sprintf("%s over string-values %q = %s (%v), expected %s", fn, selectedValues(vnodes, cond), bridge.Show(got), errStr(err), showDouble(w2)))
			}
		}
	}
	r.Sample("case", 2, map[string]any{"case": idx, "pairs": len(pairs), "rounding_values": len(rvals), "sum_document": d.Dump()})
}

func opOf(e xast.Expr) string {
	switch v := e.(type) {
	case xast.Binary:
		return v.Op
	case xast.Call:
		return v.Local
	case xast.Neg:
		return "neg"
	}
	return "expr"
}

func describe(e xast.Expr, binds []xsel.ContextApply) string { return xast.String(e) }

func selectedValues(vnodes []*adoc.Node, cond xast.Expr) []string {
	var out []string
	want := map[int]bool{}
	xast.Walk(cond, func(x xast.Expr) {
		if b, ok := x.(xast.Binary); ok && b.Op == "=" {
			if n, ok := b.R.(xast.Num); ok {
				want[int(n.V)] = true
			}
		}
	})
	for j, vn := range vnodes {
		if want[j+1] {
			out = append(out, vn.StringValue())
		}
	}
	return out
}

// c06Reading is a Result type of the embedding program (a measurement with its own rendering).
type c06Reading struct {
	f float64
	s string
}

func (r c06Reading) String() string  { return r.s }
func (r c06Reading) Number() float64 { return r.f }
func (r c06Reading) Bool() bool      { return r.f != 0 }
