package mon

import (
	"bytes"
	"fmt"
	"reflect"
	"sort"
	"strings"
	"sync"

	"github.com/ChrisTrenkamp/xsel"

	"xselverif/internal/adoc"
	"xselverif/internal/bridge"
	"xselverif/internal/evid"
	"xselverif/internal/refeval"
	"xselverif/internal/rng"
	"xselverif/internal/xast"
)

// C11 — names resolve through the query's bindings, never through document prefixes.

func init() {
	Register(&Monitor{
		ID: "C11",
		Rule: "per generated namespace-heavy document (several URIs, document prefixes that clash with the query's, alias prefixes, local-name collisions, namespaced attributes): random binding environments (prefix->URI maps with aliases and rebinding of document prefixes) x random paths with prefixed/unprefixed/p:*/*:x name tests, evaluated by the library and the reference model; the same AST under a second, consistently renamed environment must give the identical node list; the document re-serialised as XML twice with different prefixes (ReadXml) must give results that correspond node for node; " +
			"variables of all four types incl. node-sets in document/reverse order/empty used inside expressions and as the whole expression (must be exactly the bound value: same cursors, same order); user functions in no namespace and in namespaces incl. ones shadowing count/string/position, observed by a trace monitor (argument values in order, Context.Result() node, ContextPosition()) against the model's own trace, and the same namespace/variable/function bindings passed to Unmarshal with the queries as struct tags; evaluated references to an unbound prefix (name test, variable, function), variable or function must yield an error. distinct_nontrivial = distinct (environment signature, expression class, outcome class)",
		Assumptions: []string{"name tests on the namespace axis are outside the statement"},
		NCases:      func(tier string) int { return map[string]int{"quick": 3000, "thorough": 50000}[tier] },
		Case:        c11Case,
	})
}

var c11URIs = []string{"urn:a", "urn:b", "http://x.y/z"}

type bindEnv struct {
	ns  map[string]string // prefix -> uri
	rev map[string][]string
}

func genEnv(g *rng.R, pool []string) *bindEnv {
	e := &bindEnv{ns: map[string]string{}, rev: map[string][]string{}}
	ps := append([]string{}, pool...)
	rng.Shuffle(g, ps)
	for i, u := range c11URIs {
		e.ns[ps[i]] = u
	}
	// aliases
	for _, p := range ps[len(c11URIs):] {
		if g.P(40) {
			e.ns[p] = rng.Pick(g, c11URIs)
		}
	}
	for p, u := range e.ns {
		e.rev[u] = append(e.rev[u], p)
	}
	for _, l := range e.rev {
		sort.Strings(l)
	}
	return e
}

func (e *bindEnv) sig() string {
	var ks []string
	for p, u := range e.ns {
		ks = append(ks, p+"="+u)
	}
	sort.Strings(ks)
	return strings.Join(ks, ",")
}

func (e *bindEnv) vocab(g *rng.R, d *adoc.Doc) (elems, attrs []xast.QN) {
	se, sa := map[xast.QN]bool{}, map[xast.QN]bool{}
	for _, n := range d.All {
		if n.Kind != adoc.Elem && n.Kind != adoc.Attr {
			continue
		}
		q := xast.QN{Local: n.Local}
		if ps := e.rev[""]; n.Space == "" && len(ps) > 0 && g.P(30) {
			q.Prefix = ps[0]
		}
		if n.Space != "" {
			ps := e.rev[n.Space]
			if len(ps) == 0 {
				continue
			}
			q.Prefix = rng.Pick(g, ps)
		}
		if n.Kind == adoc.Elem && !se[q] {
			se[q] = true
			elems = append(elems, q)
		}
		if n.Kind == adoc.Attr && !sa[q] {
			sa[q] = true
			attrs = append(attrs, q)
		}
	}
	return
}

type callEvent struct {
	Name string
	Node string
	CPos int
	Args string
}

type callLog struct {
	mu  sync.Mutex
	evs []string
	bad []string
}

func (l *callLog) add(name, nodePath string, cpos int, args []refeval.Value) {
	var parts []string
	for _, a := range args {
		parts = append(parts, bridge.Show(a))
	}
	l.mu.Lock()
	l.evs = append(l.evs, fmt.Sprintf("%s ctx=%s ctxpos=%d args=[%s]", name, nodePath, cpos, strings.Join(parts, "; ")))
	l.mu.Unlock()
}

func (l *callLog) sorted() []string {
	out := append([]string{}, l.evs...)
	sort.Strings(out)
	return out
}

func c11Case(r *evid.Run, tier string, idx int, g *rng.R) {
	o := adoc.GenOpts{MinNodes: 8, MaxNodes: 45, NS: 2, Misc: g.P(40), Weird: g.P(35), NumericText: g.P(50)}
	d := adoc.Generate(g, o)
	w, err := newWorld(d)
	if err != nil {
		r.Inconclusive("store tree mismatch: " + err.Error())
		return
	}
	shape := d.Shape()
	total := len(d.All)
	pool := []string{"p", "q", "r", "zz", "al", "ns1", "child", "div"}
	// 'div' and friends as prefixes are a known grammar deviation (C08): keep to safe ones here
	pool = append(pool[:6], "self", "text", "child", "node")
	env1 := genEnv(g, pool)
	if _, ok := env1.ns["pp"]; !ok { // always one ordinary prefix for variable / function names
		env1.ns["pp"] = c11URIs[g.Intn(len(c11URIs))]
		env1.rev[env1.ns["pp"]] = append(env1.rev[env1.ns["pp"]], "pp")
		sort.Strings(env1.rev[env1.ns["pp"]])
	}
	env2 := genEnv(g, []string{"q", "p", "k1", "k2", "r", "w"})
	// in half of the cases a prefix is bound to the empty URI: names using it are no-namespace names
	if g.Bool() {
		env1.ns["nons"], env1.rev[""] = "", []string{"nons"}
		env2.ns["k0"], env2.rev[""] = "", []string{"k0"}
		r.Count("cases_with_prefix_bound_to_empty_uri", 1)
	}
	useEnv := func(e *bindEnv) {
		w.env.NS = map[string]string{"xml": adoc.XMLNS}
		for p, u := range e.ns {
			w.env.NS[p] = u
		}
		w.opts = nsOpts(w.env.NS)
	}
	useEnv(env1)
	elems, attrs := env1.vocab(g, d)
	var prefixes []string
	for p := range env1.ns {
		prefixes = append(prefixes, p)
	}
	sort.Strings(prefixes)
	_, _, targets := vocab(d)
	axes := []string{"child", "child", "descendant", "attribute", "self", "parent", "ancestor", "following-sibling", "descendant-or-self", "preceding", "following"}
	cfg := &xast.Cfg{Elems: elems, Attrs: attrs, Prefixes: prefixes, Targets: targets, Axes: axes,
		MaxSteps: 3, MaxDepth: 1, PredPct: 30, Abbrev: 50, Funcs: c02Funcs, StrLits: []string{"1", "a"}}
	gen := &xast.Gen{R: g, C: cfg}
	rename := func(e xast.Expr) (xast.Expr, bool) {
		ok := true
		out := xast.MapPrefixes(e, func(p string) string {
			u := env1.ns[p]
			ps := env2.rev[u]
			if len(ps) == 0 {
				ok = false
				return p
			}
			return ps[0]
		})
		return out, ok
	}
	n := 25
	if tier == "thorough" {
		n = 40
	}
	// (a) name tests under the environment + renaming invariance
	for i := 0; i < n; i++ {
		p := gen.AbsPath(0)
		useEnv(env1)
		v1, ok := w.check(r, "names/model", idx, d.Root, p, false)
		if !ok {
			continue
		}
		r.Sig(fmt.Sprintf("%s|names|%v", env1.sig(), nontrivialSet(v1, total)), true)
		r.Sig(shape+"|"+xast.String(p), nontrivialSet(v1, total))
		if nontrivialSet(v1, total) {
			r.Sample("names", 2, map[string]any{"case": idx, "bindings": env1.sig(), "expr": xast.String(p), "result": bridge.Show(v1), "document": d.Dump()})
		}
		p2, rok := rename(p)
		if !rok {
			continue
		}
		useEnv(env2)
		res1raw, _ := ExecStr(w.m.Root, xast.String(p), nsOpts(mergeNS(env1.ns))...)
		res2raw, err2 := ExecStr(w.m.Root, xast.String(p2), w.opts...)
		r.Eval(2)
		r.Count("renaming_checks", 1)
		if err2 != nil || !sameNodeList(res1raw, res2raw) {
			r.Violate("names/renaming", map[string]any{"case": idx, "what": fmt.Sprintf("%s under {%s} and its renaming %s under {%s} give different results (%v)", xast.String(p), env1.sig(), xast.String(p2), env2.sig(), errStr(err2)), "document": d.Dump()})
		}
		useEnv(env1)
	}
	// (b) variables
	var pick []*adoc.Node
	for _, x := range d.All {
		if g.P(20) {
			pick = append(pick, x)
		}
	}
	vset := refeval.NodeSet(adoc.SortDoc(pick))
	fwd := w.m.Lib(vset).(xsel.NodeSet)
	rev := make(xsel.NodeSet, len(fwd))
	for i := range fwd {
		rev[len(fwd)-1-i] = fwd[i]
	}
	// prefix used for variable and function names: not a reserved word (functions named with a
	// reserved-word prefix are the open finding grammar-reserved-names of C08)
	var plain []string
	for _, p := range prefixes {
		if p != "self" && p != "text" && p != "child" && p != "node" && p != "nons" {
			plain = append(plain, p)
		}
	}
	nsP := plain[g.Intn(len(plain))]
	type vb struct {
		prefix, local string
		model         refeval.Value
		lib           xsel.Result
	}
	vars := []vb{
		{"", "n", 3.5, xsel.Number(3.5)}, {"", "s", "a", xsel.String("a")}, {"", "b", true, xsel.Bool(true)}, {"", "e", "", xsel.String("")},
		{"", "fwd", vset, fwd}, {"", "rev", vset, rev}, {"", "empty", refeval.NodeSet{}, xsel.NodeSet{}}, {"", "shuf", vset, shuffled(g, fwd)},
		{nsP, "n", 7.0, xsel.Number(7)}, {nsP, "set", vset, rev},
		{"", "count", 9.0, xsel.Number(9)}, // a variable named like a builtin function
		// names with combining marks (Mn, Mc), extenders and letters outside the BMP-Latin comfort zone
		{"", "नाम", 21.0, xsel.Number(21)}, {nsP, "col·lecció", 22.0, xsel.Number(22)}, {"", "e\u0301t\u00e9", 23.0, xsel.Number(23)}, {"", "தமிழ்", 24.0, xsel.Number(24)}, {nsP, "x.y-z_1", 25.0, xsel.Number(25)},
	}
	if _, ok := env1.ns["nons"]; ok {
		// $nons:m is the no-namespace variable m; $nons:n is $n
		vars = append(vars, vb{"nons", "m", 11.0, xsel.Number(11)}, vb{"nons", "n", 3.5, xsel.Number(3.5)}, vb{"nons", "fwd", vset, fwd})
	}
	w.env.Vars = map[refeval.Name]refeval.Value{}
	var vbinds []xsel.ContextApply
	for _, v := range vars {
		space := ""
		if v.prefix != "" {
			space = env1.ns[v.prefix]
		}
		w.env.Vars[refeval.Name{Space: space, Local: v.local}] = v.model
		vbinds = append(vbinds, xsel.WithVariableNS(space, v.local, v.lib))
	}
	for _, v := range vars {
		ref := xast.Var{Prefix: v.prefix, Local: v.local}
		// exactness of the bare reference
		res, err := ExecStr(w.m.Root, xast.String(ref), append(append([]xsel.ContextApply{}, w.opts...), vbinds...)...)
		r.Eval(1)
		r.Count("variable_exactness_checks", 1)
		exact := err == nil
		if exact {
			switch lv := v.lib.(type) {
			case xsel.NodeSet:
				got, ok := res.(xsel.NodeSet)
				exact = ok && len(got) == len(lv)
				for i := 0; exact && i < len(lv); i++ {
					exact = got[i] == lv[i]
				}
			case xsel.Number:
				exact = res == xsel.Result(lv)
			default:
				exact = res == v.lib
			}
		}
		if !exact {
			r.Violate("variable/exact", map[string]any{"case": idx, "what": fmt.Sprintf("%s evaluates to %v (%v), bound value was %v", xast.String(ref), res, errStr(err), v.lib), "document": d.Dump()})
		}
		// inside expressions
		var exprs []xast.Expr
		switch v.model.(type) {
		case refeval.NodeSet:
			exprs = []xast.Expr{xast.Fn("count", ref), xast.Path{Head: ref, Steps: []xast.Step{xast.S("self", xast.AnyT())}},
				xast.Binary{Op: "|", L: ref, R: xast.Abs(xast.S("child", xast.AnyT()))}, xast.Path{Head: ref, HPred: []xast.Expr{xast.N(1)}},
				xast.Abs(xast.DS(), xast.S("child", xast.AnyT(), xast.Binary{Op: "=", L: xast.Rel(xast.Step{Axis: "self", Test: xast.NodeT(), Abbrev: true}), R: ref}))}
		default:
			exprs = []xast.Expr{xast.Fn("string", ref), xast.Binary{Op: "+", L: ref, R: xast.N(1)}, xast.Fn("not", ref),
				xast.Abs(xast.DS(), xast.S("child", xast.AnyT(), xast.Binary{Op: "=", L: xast.Rel(xast.Step{Axis: "self", Test: xast.NodeT(), Abbrev: true}), R: ref}))}
		}
		for _, e := range exprs {
			if val, ok := w.check(r, "variable/use", idx, d.Root, e, false, vbinds...); ok {
				r.Sig(fmt.Sprintf("var|%s|%s|%s", refeval.TypeName(v.model), xast.String(e), bridge.Show(val)), true)
			}
		}
	}
	// (c) user functions with a trace monitor
	type fdef struct{ prefix, local string }
	fns := []fdef{{"", "f"}, {nsP, "f"}, {"", "count"}, {"", "string"}, {"", "position"}, {nsP, "count"}, {"", "नाम"}, {nsP, "col·lecció"}}
	if _, ok := env1.ns["nons"]; ok {
		fns = append(fns, fdef{"nons", "f"}, fdef{"nons", "count"}, fdef{"nons", "g"})
	}
	for i := 0; i < n/2; i++ {
		fd := rng.Pick(g, fns)
		space := ""
		if fd.prefix != "" {
			space = env1.ns[fd.prefix]
		}
		label := "{" + space + "}" + fd.local
		libLog, modLog := &callLog{}, &callLog{}
		marker := float64(1000 + g.Intn(1000)) // a value no builtin would produce
		libFn := func(ctx xsel.Context, args ...xsel.Result) (xsel.Result, error) {
			ns, ok := ctx.Result().(xsel.NodeSet)
			nodePath := "?"
			if ok && len(ns) == 1 {
				if a, in := w.m.ToA[bridge.Canon(ns[0])]; in {
					nodePath = a.Path()
				}
			} else if ok {
				nodePath = fmt.Sprintf("set(%d)", len(ns))
			}
			var vals []refeval.Value
			for _, a := range args {
				mv, err := w.m.Value(a)
				if err != nil {
					mv = "ERR:" + err.Error()
				}
				vals = append(vals, mv)
			}
			libLog.add(label, nodePath, ctx.ContextPosition(), vals)
			return xsel.Number(marker), nil
		}
		w.env.Funcs = map[refeval.Name]refeval.Func{{Space: space, Local: fd.local}: func(c refeval.Ctx, cs refeval.NodeSet, args []refeval.Value) (refeval.Value, error) {
			modLog.add(label, c.Node.Path(), c.Pos-1, args)
			return marker, nil
		}}
		call := xast.Call{Prefix: fd.prefix, Local: fd.local}
		// arguments of several types, evaluated in the context of the predicate's node
		argPool := []xast.Expr{xast.Rel(xast.Step{Axis: "attribute", Test: xast.AnyT(), Abbrev: true}), xast.Fn("string-length", xast.Rel(xast.Step{Axis: "self", Test: xast.NodeT(), Abbrev: true})),
			xast.Lit{S: "lit"}, xast.Binary{Op: "+", L: xast.N(1), R: xast.N(2)}, xast.Rel(xast.S("child", xast.AnyT())), xast.Fn("true"), xast.Var{Local: "n"}, xast.Rel(xast.S("parent", xast.AnyT()))}
		if fd.local != "position" && fd.local != "count" {
			argPool = append(argPool, xast.Fn("position"), xast.Fn("last"))
		}
		for k := g.Intn(4); k > 0; k-- {
			call.Args = append(call.Args, rng.Pick(g, argPool))
		}
		base := gen.AbsPath(2)
		last := &base.Steps[len(base.Steps)-1]
		if last.Abbrev && (last.Axis == "self" || last.Axis == "parent") {
			continue
		}
		last.Preds = []xast.Expr{xast.Binary{Op: "=", L: call, R: xast.N(marker)}}
		extra := append(append([]xsel.ContextApply{}, vbinds...), xsel.WithFunctionNS(space, fd.local, libFn))
		fv, ok := w.check(r, "function/result", idx, d.Root, base, false, extra...)
		w.env.Funcs = nil
		if !ok {
			continue
		}
		r.Count("function_call_events", len(libLog.evs))
		lk, mk := libLog.sorted(), modLog.sorted()
		r.Sig(fmt.Sprintf("fn|%s|args%d|events%d", label, len(call.Args), len(mk)), len(mk) > 0)
		if strings.Join(lk, "\n") != strings.Join(mk, "\n") {
			r.Violate("function/trace", map[string]any{"case": idx, "what": fmt.Sprintf("%s: calls observed by the registered function differ from the specification: %s", xast.String(base), firstDiff(lk, mk)), "library_events": head(lk, 8), "spec_events": head(mk, 8), "document": d.Dump()})
		} else if len(mk) > 0 {
			r.Sample("function", 2, map[string]any{"case": idx, "expr": xast.String(base), "events": head(lk, 4)})
		}
		// the same bindings through Unmarshal: struct tags are queries like any other
		if fset, isSet := fv.(refeval.NodeSet); isSet {
			bare := xast.Call{Prefix: fd.prefix, Local: fd.local}
			t := reflect.StructOf([]reflect.StructField{
				{Name: "C", Type: reflect.TypeOf([]string{}), Tag: reflect.StructTag(fmt.Sprintf("xsel:%q", xast.String(base)))},
				{Name: "M", Type: reflect.TypeOf(float64(0)), Tag: reflect.StructTag(fmt.Sprintf("xsel:%q", xast.String(bare)))},
			})
			target := reflect.New(t)
			uerr, panicked := safeUnmarshal(xsel.NodeSet{w.m.Root}, target.Interface(), append(append([]xsel.ContextApply{}, w.opts...), extra...)...)
			r.Eval(1)
			r.Count("unmarshal_with_bindings", 1)
			gotC, gotM := float64(target.Elem().Field(0).Len()), target.Elem().Field(1).Float()
			if uerr != nil || panicked != nil || gotC != float64(len(fset)) || gotM != marker {
				r.Violate("function/unmarshal", map[string]any{"case": idx, "what": fmt.Sprintf("Unmarshal with the same bindings into struct{C []string `%s`; M float64 `%s`} gives len(C)=%v M=%v (%v); Exec gives %d nodes and %v", t.Field(0).Tag, t.Field(1).Tag, gotC, gotM, errStr(uerr), len(fset), marker), "document": d.Dump()})
			}
		}
	}
	// (c') the exported helper that resolves a QName against a binding map agrees with the
	// resolution inside queries: bound prefix -> its URI, no prefix -> no namespace, unbound -> error
	for p, u := range env1.ns {
		for _, local := range []string{"x", "v", "a-1", "count"} {
			got, err := xsel.GetQName(p+":"+local, env1.ns)
			r.Eval(1)
			r.Count("getqname_checks", 1)
			if err != nil || got != (xsel.XmlName{Space: u, Local: local}) {
				r.Violate("getqname", map[string]any{"case": idx, "what": fmt.Sprintf("GetQName(%q) under {%s} = %v (%v), expected {%s}%s", p+":"+local, env1.sig(), got, errStr(err), u, local)})
			}
		}
	}
	if got, err := xsel.GetQName("plain", env1.ns); err != nil || got != (xsel.XmlName{Local: "plain"}) {
		r.Violate("getqname", map[string]any{"case": idx, "what": fmt.Sprintf("GetQName(\"plain\") = %v (%v), expected the no-namespace name", got, errStr(err))})
	}
	if got, err := xsel.GetQName("nope:x", env1.ns); err == nil {
		r.Violate("getqname", map[string]any{"case": idx, "what": fmt.Sprintf("GetQName(\"nope:x\") = %v and no error although the prefix is unbound", got)})
	}
	// (d) unbound references must be errors when evaluated
	someElem := xast.AnyT()
	unb := []xast.Expr{
		xast.Abs(xast.S("child", xast.NameT("nope", "x"))),
		xast.Abs(xast.S("child", xast.Test{Kind: xast.TNSAny, Prefix: "nope"})),
		xast.Abs(xast.DS(), xast.S("child", someElem, xast.Rel(xast.S("child", xast.NameT("nope", "y"))))),
		xast.Var{Local: "undefined"},
		xast.Var{Prefix: "nope", Local: "n"},
		xast.Var{Prefix: nsP, Local: "undefined"},
		xast.Fn("undefined-function"),
		xast.Call{Prefix: "nope", Local: "f"},
		xast.Call{Prefix: nsP, Local: "undefined"},
		xast.Fn("count", xast.Var{Local: "undefined"}),
		xast.Abs(xast.S("child", someElem, xast.Binary{Op: "=", L: xast.Var{Local: "undefined"}, R: xast.N(1)})),
		xast.Abs(xast.S("attribute", xast.NameT("nope", "id"))),
	}
	for _, e := range unb {
		if _, ok := w.check(r, "unbound", idx, d.Root, e, false, vbinds...); ok {
			r.Sig("unbound|"+xast.String(e), true)
		}
	}
	// the prefix xml is no exception: a query that does not bind it cannot use it
	{
		w2 := *w
		w2.env = &refeval.Env{Doc: d, NS: env1.ns, Vars: w.env.Vars}
		w2.opts = nsOpts(env1.ns)
		for _, e := range []xast.Expr{
			xast.Abs(xast.DS(), xast.Step{Axis: "attribute", Test: xast.NameT("xml", "lang"), Abbrev: true}),
			xast.Abs(xast.DS(), xast.S("child", xast.Test{Kind: xast.TNSAny, Prefix: "xml"})),
			xast.Var{Prefix: "xml", Local: "v"}, xast.Call{Prefix: "xml", Local: "f"},
			xast.Fn("count", xast.Abs(xast.DS(), xast.S("child", xast.AnyT(), xast.Rel(xast.Step{Axis: "attribute", Test: xast.NameT("xml", "lang"), Abbrev: true})))),
		} {
			extra := append(append([]xsel.ContextApply{}, vbinds...), xsel.WithVariableNS(adoc.XMLNS, "v", xsel.String("x")), xsel.WithFunctionNS(adoc.XMLNS, "f", func(xsel.Context, ...xsel.Result) (xsel.Result, error) { return xsel.String("f"), nil }))
			if _, ok := w2.check(r, "unbound/xml-prefix", idx, d.Root, e, false, extra...); ok {
				r.Sig("unbound-xml|"+xast.String(e), true)
			}
		}
	}
	// (e) re-serialisation with different prefixes (R-xml)
	c11Reserialise(r, idx, g, d, env1, gen)
}

func mergeNS(m map[string]string) map[string]string {
	out := map[string]string{"xml": adoc.XMLNS}
	for k, v := range m {
		out[k] = v
	}
	return out
}

func sameNodeList(a, b xsel.Result) bool {
	x, ok1 := a.(xsel.NodeSet)
	y, ok2 := b.(xsel.NodeSet)
	if !ok1 || !ok2 {
		return ok1 == ok2 && a == b
	}
	if len(x) != len(y) {
		return false
	}
	for i := range x {
		if x[i] != y[i] {
			return false
		}
	}
	return true
}

func c11Reserialise(r *evid.Run, idx int, g *rng.R, d *adoc.Doc, env *bindEnv, gen *xast.Gen) {
	// XML cannot carry every generated name/value: sanitise a clone first
	base := d.Clone()
	for _, n := range base.All {
		if strings.Contains(n.Local, "#") {
			n.Local = strings.ReplaceAll(n.Local, "#", "h")
		}
		if n.Kind == adoc.Text && n.Value == "" {
			n.Value = "e"
		}
		if n.Kind == adoc.Text {
			n.Value = strings.ReplaceAll(n.Value, "\r", " ")
		}
	}
	// merge adjacent text (XML would)
	var merge func(n *adoc.Node)
	merge = func(n *adoc.Node) {
		var out []*adoc.Node
		for _, c := range n.Children {
			if c.Kind == adoc.Text && len(out) > 0 && out[len(out)-1].Kind == adoc.Text {
				out[len(out)-1].Value += c.Value
				continue
			}
			out = append(out, c)
			merge(c)
		}
		n.Children = out
	}
	merge(base.Root)
	for _, n := range base.All {
		n.Decls = nil
	}
	mk := func(label string) (*bridge.Map, *adoc.Doc, string, error) {
		c := base.Clone()
		// sprinkle random declarations with the document's own prefix choices
		for _, e := range c.Elements() {
			if g.P(25) {
				e.Decls = append(e.Decls, adoc.Decl{Prefix: rng.Pick(g, []string{"p", "q", "r", "", "zz"}), URI: rng.Pick(g, c11URIs)})
			}
		}
		c.NormalizeNS(g.Sub(label))
		c.Finish()
		text := c.ToXML(adoc.XMLOpts{R: g.Sub(label + "ser")})
		root, err := xsel.ReadXml(bytes.NewReader([]byte(text)))
		if err != nil {
			return nil, nil, text, err
		}
		m, err := bridge.Build(root, c)
		return m, c, text, err
	}
	m1, d1, t1, err1 := mk("A")
	m2, d2, t2, err2 := mk("B")
	if err1 != nil || err2 != nil {
		r.Inconclusive(fmt.Sprintf("re-serialisation could not be read back (C09's business): %v %v", err1, err2))
		return
	}
	opts := nsOpts(mergeNS(env.ns))
	for i := 0; i < 12; i++ {
		p := gen.AbsPath(0)
		if xast.UsesAxis(p, "namespace") {
			continue
		}
		s := xast.String(p)
		ra, ea := ExecStr(m1.Root, s, opts...)
		rb, eb := ExecStr(m2.Root, s, opts...)
		r.Eval(2)
		r.Count("reserialisation_checks", 1)
		ok := (ea != nil) == (eb != nil)
		var ida, idb []int
		if ok && ea == nil {
			na, oka := ra.(xsel.NodeSet)
			nb, okb := rb.(xsel.NodeSet)
			if oka && okb {
				for _, c := range na {
					ida = append(ida, m1.ToA[c].ID)
				}
				for _, c := range nb {
					idb = append(idb, m2.ToA[c].ID)
				}
				ok = fmt.Sprint(ida) == fmt.Sprint(idb)
			} else {
				ok = oka == okb && ra == rb
			}
		}
		if !ok {
			r.Violate("names/reserialisation", map[string]any{"case": idx, "what": fmt.Sprintf("%s under {%s} selects node ids %v in serialisation A but %v in serialisation B (%v / %v)", s, env.sig(), ida, idb, errStr(ea), errStr(eb)), "xml_a": t1, "xml_b": t2})
		} else {
			r.Sig("reser|"+d1.Shape()+"|"+s, len(ida) > 0)
		}
	}
	_ = d2
}

func shuffled(g *rng.R, ns xsel.NodeSet) xsel.NodeSet {
	out := append(xsel.NodeSet{}, ns...)
	rng.Shuffle(g, out)
	return out
}
