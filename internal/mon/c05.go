package mon

import (
	"fmt"
	"math"

	"github.com/ChrisTrenkamp/xsel"

	"xselverif/internal/adoc"
	"xselverif/internal/bridge"
	"xselverif/internal/evid"
	"xselverif/internal/refeval"
	"xselverif/internal/rng"
	"xselverif/internal/xast"
)

// C05 — comparison operators: existential and typed comparison.

func init() {
	Register(&Monitor{
		ID: "C05",
		Rule: "per case a value document (string-values incl. 1, ' 2 ', 10, 9, abc, '', NaN, -0, 1e3, equal pairs, split across nested markup) and operand pools of the four types (node-set variables of 0-4 nodes in document or reverse order, boundary/random doubles, numeric-lexical strings, both booleans); every ordered pair x 6 operators as '$l op $r', a sample also spelled with path operands; oracle = reference §3.4 cascade; 16 comparisons per case placed inside a predicate over the value elements, with operands that mix absolute paths / literals with context-dependent parts (., position(), siblings, arithmetic, unions, filters, nested comparisons) against the model; " +
			"library-only relations: L<R == R>L, L<=R == R>=L, = and != symmetric, singleton numeric trichotomy unless NaN, empty node-set vs non-boolean always false. distinct_nontrivial = distinct (left type, right type, operator, expected result, operand value classes)",
		NCases: func(tier string) int { return map[string]int{"quick": 600, "thorough": 8000}[tier] },
		Case:   c05Case,
	})
}

var cmpOps = []string{"=", "!=", "<", "<=", ">", ">="}
var flipOp = map[string]string{"<": ">", "<=": ">=", ">": "<", ">=": "<=", "=": "=", "!=": "!="}

type operand struct {
	model refeval.Value
	lib   xsel.Result
	class string
	path  xast.Expr // path spelling when available
}

func c05Case(r *evid.Run, tier string, idx int, g *rng.R) {
	// value document
	vals := append([]string{}, comparisonValues...)
	for i := 0; i < 6; i++ {
		vals = append(vals, genNumericString(g))
	}
	// long numerals: as node text, as strings, and the double they denote as a number operand
	var longs []string
	for i := 0; i < 3; i++ {
		longs = append(longs, genLongNumeral(g))
	}
	vals = append(vals, longs...)
	big := idx%10 == 9
	if big {
		// large node-sets (size products beyond a few thousand pairs)
		for i := 0; i < 90; i++ {
			vals = append(vals, rng.Pick(g, []string{"1", "2", "3", "a", "b", "10", " 2 ", "x"}))
		}
	}
	rng.Shuffle(g, vals)
	d, vnodes := valueDoc(vals)
	w, err := newWorld(d)
	if err != nil {
		r.Inconclusive("store tree mismatch: " + err.Error())
		return
	}
	var pool []operand
	// node-sets
	for i := 0; i < 7; i++ {
		k := g.Intn(5)
		if big && i >= 4 {
			k = g.Range(66, len(vnodes))
		}
		if i == 0 {
			k = 0
		}
		if i == 1 {
			k = 1
		}
		var pick []*adoc.Node
		var idxs []int
		for j := 0; j < k; j++ {
			x := g.Intn(len(vnodes))
			pick = append(pick, vnodes[x])
			idxs = append(idxs, x+1)
		}
		ns := refeval.NodeSet(adoc.SortDoc(pick))
		lib := w.m.Lib(ns).(xsel.NodeSet)
		if g.Bool() {
			for a, b := 0, len(lib)-1; a < b; a, b = a+1, b-1 {
				lib[a], lib[b] = lib[b], lib[a]
			}
		}
		// path spelling: /r/v[position()=i or position()=j ...]
		var cond xast.Expr = xast.Fn("false")
		for _, x := range idxs {
			cond = xast.Binary{Op: "or", L: cond, R: xast.Binary{Op: "=", L: xast.Fn("position"), R: xast.N(float64(x))}}
		}
		p := xast.Abs(xast.S("child", xast.NameT("", "r")), xast.S("child", xast.NameT("", "v"), cond))
		var spelled xast.Expr = p
		if len(idxs) > 8 {
			spelled = nil // a path spelling with dozens of 'or' terms costs seconds to compile
		}
		pool = append(pool, operand{ns, lib, fmt.Sprintf("node-set:%d", len(ns)), spelled})
	}
	// node-sets taken from a second document (same positions, different values): comparisons are
	// by string-value, never by position or identity
	vals2 := append([]string{}, vals...)
	rng.Shuffle(g, vals2)
	d2, vnodes2 := valueDoc(vals2)
	if w2, err2 := newWorld(d2); err2 == nil {
		for i := 0; i < 4; i++ {
			var pick []*adoc.Node
			for j := g.Intn(4); j >= 0; j-- {
				pick = append(pick, vnodes2[g.Intn(len(vnodes2))])
			}
			if i == 0 && len(pool) > 1 {
				// the same positions as an operand of the first document
				pick = nil
				for _, n := range pool[1].model.(refeval.NodeSet) {
					for k, vn := range vnodes {
						if vn == n {
							pick = append(pick, vnodes2[k])
						}
					}
				}
			}
			ns := refeval.NodeSet(adoc.SortDoc(pick))
			pool = append(pool, operand{ns, w2.m.Lib(ns), fmt.Sprintf("node-set(other document):%d", len(ns)), nil})
		}
	}
	for i := 0; i < 6; i++ {
		f := genDouble(g)
		pool = append(pool, operand{f, xsel.Number(f), "number:" + dclass(f), nil})
	}
	for _, s := range longs {
		f := refeval.StringToNumber(s)
		pool = append(pool, operand{f, xsel.Number(f), "number:value-of-a-long-numeral", nil}, operand{s, xsel.String(s), "string:long-numeral", nil})
	}
	if len(longs) > 0 {
		// a singleton node-set holding the first long numeral, so that node = number is decided on it alone
		for k, v := range vals {
			if v == longs[0] {
				ns := refeval.NodeSet{vnodes[k]}
				pool = append(pool, operand{ns, w.m.Lib(ns), "node-set:long-numeral", nil})
				break
			}
		}
	}
	for i := 0; i < 6; i++ {
		s := genNumericString(g)
		if g.P(40) {
			s = rng.Pick(g, comparisonValues)
		}
		cls := "string:nonnumeric"
		if !math.IsNaN(refeval.StringToNumber(s)) {
			cls = "string:numeric"
		}
		if s == "" {
			cls = "string:empty"
		}
		pool = append(pool, operand{s, xsel.String(s), cls, nil})
	}
	pool = append(pool, operand{true, xsel.Bool(true), "boolean", xast.Fn("true")}, operand{false, xsel.Bool(false), "boolean", xast.Fn("false")})
	// the zero value of the NodeSet type is an empty node-set like any other
	pool = append(pool, operand{refeval.NodeSet{}, xsel.NodeSet(nil), "node-set:nil", nil})

	libBool := func(e xast.Expr, l, rr operand) (bool, bool) {
		got, _, err := w.libEval(d.Root, xast.String(e), xsel.WithVariable("l", l.lib), xsel.WithVariable("r", rr.lib))
		r.Eval(1)
		if err != nil {
			r.Violate("error", map[string]any{"case": idx, "what": fmt.Sprintf("%s with $l=%s $r=%s failed: %s", xast.String(e), bridge.Show(l.model), bridge.Show(rr.model), errStr(err)), "document": d.Dump()})
			return false, false
		}
		b, ok := got.(bool)
		if !ok {
			r.Violate("type", map[string]any{"case": idx, "what": fmt.Sprintf("%s returned %s, not a boolean", xast.String(e), bridge.Show(got)), "document": d.Dump()})
			return false, false
		}
		return b, true
	}
	for _, l := range pool {
		for _, rr := range pool {
			res := map[string]bool{}
			allOK := true
			for _, op := range cmpOps {
				e := xast.Binary{Op: op, L: xast.Var{Local: "l"}, R: xast.Var{Local: "r"}}
				want := refeval.Compare(op, l.model, rr.model)
				got, ok := libBool(e, l, rr)
				if !ok {
					allOK = false
					continue
				}
				res[op] = got
				r.Tab("type_matrix", refeval.TypeName(l.model)+" "+op+" "+refeval.TypeName(rr.model), 1)
				r.Sig(fmt.Sprintf("%s|%s|%s|%v", l.class, op, rr.class, want), true)
				if got != want {
					r.Violate(fmt.Sprintf("compare/%s %s %s", refeval.TypeName(l.model), op, refeval.TypeName(rr.model)), map[string]any{"case": idx,
						"what":     fmt.Sprintf("$l %s $r with $l=%s $r=%s gives %v, expected %v", op, showOperand(l.model), showOperand(rr.model), got, want),
						"document": d.Dump()})
				}
				// path spelling for a sample
				if l.path != nil && rr.path != nil && g.P(25) {
					pe := xast.Binary{Op: op, L: l.path, R: rr.path}
					pgot, _, perr := w.libEval(d.Root, xast.String(pe))
					r.Eval(1)
					if perr != nil || pgot != refeval.Value(want) {
						r.Violate("compare/path-spelling", map[string]any{"case": idx, "what": fmt.Sprintf("%s gives %s (%v), expected %v", xast.String(pe), bridge.Show(pgot), errStr(perr), want), "document": d.Dump()})
					}
				}
			}
			if !allOK {
				continue
			}
			r.Sample(refeval.TypeName(l.model)+"/"+refeval.TypeName(rr.model), 1, map[string]any{"case": idx, "l": showOperand(l.model), "r": showOperand(rr.model), "results": res})
			// library-only relations, evaluated with swapped operands
			for _, op := range cmpOps {
				e := xast.Binary{Op: flipOp[op], L: xast.Var{Local: "l"}, R: xast.Var{Local: "r"}}
				sw, ok := libBool(e, rr, l)
				if ok && sw != res[op] {
					r.Violate("relation/flip "+op, map[string]any{"case": idx, "what": fmt.Sprintf("L %s R is %v but R %s L is %v for L=%s R=%s", op, res[op], flipOp[op], sw, showOperand(l.model), showOperand(rr.model)), "document": d.Dump()})
				}
			}
			r.Count("relation_checks", 6)
			ls, lIsSet := l.model.(refeval.NodeSet)
			_, rIsBool := rr.model.(bool)
			if lIsSet && len(ls) == 0 && !rIsBool {
				for _, op := range cmpOps {
					if res[op] {
						r.Violate("relation/empty-set", map[string]any{"case": idx, "what": fmt.Sprintf("empty node-set %s %s is true", op, showOperand(rr.model)), "document": d.Dump()})
					}
				}
			}
			lf, lIsNum := l.model.(float64)
			rf, rIsNum := rr.model.(float64)
			if lIsNum && rIsNum && !math.IsNaN(lf) && !math.IsNaN(rf) {
				n := 0
				for _, op := range []string{"<", "=", ">"} {
					if res[op] {
						n++
					}
				}
				if n != 1 {
					r.Violate("relation/trichotomy", map[string]any{"case": idx, "what": fmt.Sprintf("%s vs %s: %d of <,=,> hold", showDouble(lf), showDouble(rf), n)})
				}
			}
		}
	}
	// comparisons inside predicates: evaluated once per context node, with operands that combine
	// context-independent parts (absolute paths, literals) with context-dependent ones
	if !big {
		self := xast.Rel(xast.Step{Axis: "self", Test: xast.NodeT(), Abbrev: true})
		abs := func() xast.Expr {
			return xast.Abs(xast.S("child", xast.NameT("", "r")), xast.S("child", xast.NameT("", "v"), xast.N(float64(g.Range(1, len(vnodes))))))
		}
		dep := func() xast.Expr {
			switch g.Intn(6) {
			case 0:
				return xast.Fn("position")
			case 1:
				return xast.Fn("string-length", self)
			case 2:
				return xast.Rel(xast.S("following-sibling", xast.NameT("", "v"), xast.N(1)))
			case 3:
				return xast.Rel(xast.S("child", xast.NameT("", "i")))
			}
			return self
		}
		var operand func(depth int) xast.Expr
		operand = func(depth int) xast.Expr {
			switch k := g.Intn(12); {
			case k == 0:
				return abs()
			case k == 1:
				return dep()
			case k == 2:
				return xast.Binary{Op: rng.Pick(g, []string{"+", "-", "*"}), L: abs(), R: dep()}
			case k == 3:
				return xast.Binary{Op: rng.Pick(g, []string{"+", "-"}), L: dep(), R: abs()}
			case k == 4:
				return xast.Binary{Op: "|", L: abs(), R: dep2(g, self)}
			case k == 5:
				return xast.Path{Head: xast.Paren{X: xast.Binary{Op: "|", L: abs(), R: dep2(g, self)}}, HPred: []xast.Expr{rng.Pick(g, []xast.Expr{xast.Fn("last"), xast.N(1)})}}
			case k == 6 && depth < 1:
				return xast.Paren{X: xast.Binary{Op: rng.Pick(g, []string{"=", "!=", "<"}), L: operand(depth + 1), R: operand(depth + 1)}}
			case k == 7:
				return xast.Neg{X: xast.Binary{Op: "+", L: abs(), R: dep()}}
			case k == 8:
				return xast.N(float64(g.Range(0, 12)))
			case k == 9:
				return xast.Lit{S: rng.Pick(g, comparisonValues)}
			case k == 10:
				return xast.Fn("concat", abs(), dep())
			}
			return xast.Fn("number", xast.Binary{Op: "+", L: abs(), R: dep()})
		}
		for i := 0; i < 16; i++ {
			cmp := xast.Binary{Op: rng.Pick(g, []string{"=", "!=", "<", "<=", ">", ">="}), L: operand(0), R: operand(0)}
			e := xast.Abs(xast.S("child", xast.NameT("", "r")), xast.S("child", xast.NameT("", "v"), cmp))
			if v, ok := w.check(r, "in-predicate/"+cmp.Op, idx, d.Root, e, false); ok {
				r.Tab("comparison", "in-predicate "+cmp.Op, 1)
				r.Sig("inpred|"+xast.String(cmp)+"|"+fmt.Sprint(len(v.(refeval.NodeSet))), nontrivialSet(v, len(vnodes)+1))
			}
		}
	}
}

func dep2(g *rng.R, self xast.Expr) xast.Expr {
	if g.Bool() {
		return self
	}
	return xast.Rel(xast.S("preceding-sibling", xast.NameT("", "v"), xast.N(1)))
}

func showOperand(v refeval.Value) string {
	if ns, ok := v.(refeval.NodeSet); ok {
		s := "node-set["
		for i, n := range ns {
			if i > 0 {
				s += ", "
			}
			s += fmt.Sprintf("%q", n.StringValue())
		}
		return s + "]"
	}
	return bridge.Show(v)
}
