package mon

import (
	"fmt"
	"os"
	"os/exec"
	"runtime"
	"runtime/debug"
	"strconv"
	"strings"
	"sync"
	"time"

	"github.com/ChrisTrenkamp/xsel/store"

	"xselverif/internal/adoc"
	"xselverif/internal/bridge"
	"xselverif/internal/evid"
	"xselverif/internal/rng"
)

// C10 — the in-memory store honours the Cursor contract for any conforming Parser.

func init() {
	Register(&Monitor{
		ID: "C10",
		Rule: "scripted parser.Parser streams generated from abstract documents (nesting, namespace declarations incl. overrides of inherited prefixes and repeats within one element, attributes, text incl. adjacent text, comments, PIs, top-level non-element nodes, surplus end events at the root, flat streams up to 10^5..10^7 events (children of one element: text/comment/element, and elements that each carry namespace declarations and an attribute), chains up to depth 10^4) -> store.CreateInMemory; every eighth case builds two documents whose builds overlap (one built inside a Pull of the other, or two builders alternating event by event on two goroutines) and each tree must still be its own stream's; " +
			"oracles: (1) parallel walk tree==document, every cursor reachable once; (2) Pos() unique, 0 only for root, strictly increasing in document order element<ns<attrs<children<following; (3) Parent() of every listed cursor is the lister; (4) namespace prefix map per element = inherited overridden by prefix; " +
			"(5) trace monitor: call depth sampled inside Pull() <= 96 + 8*nesting depth; (6) child process with 64 MiB max stack survives the flat builds. distinct_nontrivial = distinct document shape signatures with >= 3 nodes",
		Assumptions: []string{"runtime.Callers depth is a faithful proxy for goroutine stack use", "a Namespace event with empty prefix and empty value means 'no default namespace here' (xmlns=\"\"): it overrides an inherited default namespace by prefix and is itself not a namespace node — the meaning the store documents since its repair"},
		NCases:      func(tier string) int { return map[string]int{"quick": 60000, "thorough": 2000000}[tier] },
		Case:        c10Case,
		Post:        c10Post,
	})
}

func c10Doc(g *rng.R, tier string) (*adoc.Doc, []adoc.Event) {
	o := adoc.GenOpts{MinNodes: 1, MaxNodes: 60, NS: g.Intn(3), Misc: true, Weird: g.P(30), Lang: g.P(20), Unicode: g.P(30), NoXMLNS: g.P(50)}
	if tier == "thorough" && g.P(5) {
		o.MaxNodes = 600
	}
	d := adoc.Generate(g, o)
	// extra top-level nodes a custom parser may emit (text at the root, several elements)
	if g.P(30) {
		for i := g.Range(1, 3); i > 0; i-- {
			switch g.Intn(3) {
			case 0:
				d.AddText(d.Root, adoc.TextValue(g, o))
			case 1:
				e := d.AddElem(d.Root, "", "top")
				e.NoXMLNS = o.NoXMLNS
				if g.P(50) {
					d.AddText(e, "t")
				}
			default:
				d.AddComment(d.Root, "tail")
			}
		}
	}
	// repeated prefix within one element, and overrides of inherited prefixes
	for _, e := range d.Elements() {
		if len(e.Decls) > 0 && g.P(20) {
			dup := e.Decls[g.Intn(len(e.Decls))]
			dup.URI = dup.URI + "/again"
			e.Decls = append(e.Decls, dup)
		}
		if e.Parent != nil && e.Parent.Kind == adoc.Elem && g.P(15) {
			for _, in := range e.Parent.Decls {
				if in.Prefix != "" || in.URI != "" {
					e.Decls = append(e.Decls, adoc.Decl{Prefix: in.Prefix, URI: in.URI + "/o"})
					break
				}
			}
		}
	}
	if g.P(40) {
		adoc.NSQuirks(g, d, true)
	}
	if g.P(4) {
		// sizes around the usual strategy thresholds: many attributes on an element with children, a wide element
		adoc.ManyAttrs(g, d, rng.Pick(g, []int{5, 8, 9, 12, 16, 17, 33, 40}))
		adoc.ManyDecls(g, d, rng.Pick(g, []int{3, 7, 8, 9, 12, 20}))
		if g.Bool() {
			adoc.Widen(g, d, rng.Pick(g, adoc.Thresholds), false)
		}
	}
	d.Finish()
	evs := d.Events()
	// surplus end events at the root
	if g.P(30) {
		var out []adoc.Event
		for _, ev := range evs {
			if ev.Depth == 0 && !ev.End && g.P(40) {
				out = append(out, adoc.Event{End: true})
			}
			out = append(out, ev)
		}
		for i := g.Intn(3); i > 0; i-- {
			out = append(out, adoc.Event{End: true})
		}
		evs = out
	}
	return d, evs
}

func callDepth() int {
	var pcs [4096]uintptr
	return runtime.Callers(0, pcs[:])
}

const c10C0, c10C1 = 96, 8

// checkStore runs the structural oracles on a built tree.
func checkStore(root store.Cursor, d *adoc.Doc) (class, what string) {
	m, err := bridge.Build(root, d)
	if err != nil {
		return "tree-mismatch", err.Error()
	}
	// Pos: unique, 0 only for root, strictly increasing in document order
	seen := map[int]*adoc.Node{}
	prev := -1
	for i, c := range m.Order {
		a := d.All[i]
		p := c.Pos()
		if other, dup := seen[p]; dup {
			return "pos-duplicate", fmt.Sprintf("Pos()=%d for both %s and %s", p, other.Path(), a.Path())
		}
		seen[p] = a
		if (p == 0) != (a.Kind == adoc.Root) {
			return "pos-zero", fmt.Sprintf("Pos()=%d at %s", p, a.Path())
		}
		if p <= prev {
			return "pos-order", fmt.Sprintf("Pos()=%d at %s is not greater than its document-order predecessor %s (Pos %d)", p, a.Path(), d.All[i-1].Path(), prev)
		}
		prev = p
	}
	// Parent consistency
	for i, c := range m.Order {
		a := d.All[i]
		lists := [][]store.Cursor{c.Namespaces(), c.Attributes(), c.Children()}
		for li, l := range lists {
			for _, x := range l {
				if x.Parent() != c {
					return "parent-link", fmt.Sprintf("%s lists %s in %s but that cursor's Parent() is %s",
						a.Path(), bridge.Describe(x), []string{"Namespaces()", "Attributes()", "Children()"}[li], describeParent(m, x))
				}
			}
		}
		if a.Kind != adoc.Elem && a.Kind != adoc.Root {
			if len(c.Children())+len(c.Attributes())+len(c.Namespaces()) != 0 {
				return "leaf-has-lists", a.Path()
			}
		}
	}
	return "", ""
}

func describeParent(m *bridge.Map, x store.Cursor) string {
	p := x.Parent()
	if p == nil {
		return "nil"
	}
	if a, ok := m.ToA[p]; ok {
		return a.Path()
	}
	return "a cursor outside the tree (" + bridge.Describe(p) + ")"
}

// c10Overlap builds two documents whose builds overlap in time: either the second one is built
// completely inside one Pull of the first (a parser that assembles a sub-document), or the two
// builders run on two goroutines in strict alternation, one pulled event each (deterministic
// hand-over, never truly parallel). Each tree must equal the one its own stream describes.
func c10Overlap(r *evid.Run, idx int, g *rng.R, tier string) {
	dA, evA := c10Doc(g, tier)
	dB, evB := c10Doc(g, tier)
	build := func(p *adoc.Scripted) (root *store.InMemory, err error) {
		defer func() {
			if pp := recover(); pp != nil {
				err = fmt.Errorf("PANIC escaped CreateInMemory: %v", pp)
			}
		}()
		return store.CreateInMemory(p)
	}
	var rootA, rootB *store.InMemory
	var errA, errB error
	mode := "nested"
	if g.Bool() {
		at := g.Intn(len(evA) + 1)
		pa := &adoc.Scripted{Evs: evA}
		pa.OnPull = func(i int, ev *adoc.Event) {
			if i == at {
				rootB, errB = build(&adoc.Scripted{Evs: evB})
			}
		}
		rootA, errA = build(pa)
	} else {
		mode = "alternating"
		var mu sync.Mutex
		cond := sync.NewCond(&mu)
		turn := 0
		done := [2]bool{}
		hand := func(me int) func(int, *adoc.Event) {
			return func(int, *adoc.Event) {
				mu.Lock()
				turn = 1 - me
				cond.Broadcast()
				for turn != me && !done[1-me] {
					cond.Wait()
				}
				mu.Unlock()
			}
		}
		finish := func(me int) {
			mu.Lock()
			done[me] = true
			turn = 1 - me
			cond.Broadcast()
			mu.Unlock()
		}
		var wg sync.WaitGroup
		wg.Add(2)
		go func() {
			defer wg.Done()
			defer finish(0)
			rootA, errA = build(&adoc.Scripted{Evs: evA, OnPull: hand(0)})
		}()
		go func() {
			defer wg.Done()
			defer finish(1)
			rootB, errB = build(&adoc.Scripted{Evs: evB, OnPull: hand(1)})
		}()
		wg.Wait()
	}
	r.Eval(2)
	r.Count("overlapping_builds/"+mode, 1)
	r.Sig("overlap|"+mode+"|"+dA.Shape()+"|"+dB.Shape(), true)
	for k, t := range []struct {
		root *store.InMemory
		err  error
		d    *adoc.Doc
	}{{rootA, errA, dA}, {rootB, errB, dB}} {
		which := []string{"first", "second"}[k]
		if t.err != nil {
			r.Violate("overlap/build-error", map[string]any{"case": idx, "what": fmt.Sprintf("%s overlapping builds: CreateInMemory failed for the %s stream: %s", mode, which, errStr(t.err)), "document": t.d.Dump()})
			continue
		}
		if class, what := checkStore(t.root, t.d); class != "" {
			r.Violate("overlap/"+class, map[string]any{"case": idx, "what": fmt.Sprintf("%s overlapping builds, %s tree: %s", mode, which, what), "document": t.d.Dump(), "other_document": []*adoc.Doc{dB, dA}[k].Dump()})
		}
	}
}

func c10Case(r *evid.Run, tier string, idx int, g *rng.R) {
	if idx%8 == 5 {
		c10Overlap(r, idx, g, tier)
		return
	}
	d, evs := c10Doc(g, tier)
	maxExcess, samples := 0, 0
	var worst string
	p := &adoc.Scripted{Evs: evs, EndNodes: g.Intn(4)}
	r.Tab("end_event_payload", []string{"nil", "the start node", "a separate end-tag value", "a text node"}[p.EndNodes], 1)
	every := 1 + len(evs)/64
	p.OnPull = func(i int, ev *adoc.Event) {
		if i%every != 0 && ev != nil {
			return
		}
		depth := 0
		if ev != nil {
			depth = ev.Depth
		}
		cd := callDepth()
		samples++
		if ex := cd - (c10C0 + c10C1*depth); ex > maxExcess {
			maxExcess = ex
			worst = fmt.Sprintf("event %d of %d at nesting depth %d: call depth %d > %d+%d*depth", i, len(evs), depth, cd, c10C0, c10C1)
		}
	}
	var root *store.InMemory
	var err error
	func() {
		defer func() {
			if pp := recover(); pp != nil {
				err = fmt.Errorf("PANIC escaped CreateInMemory: %v", pp)
			}
		}()
		root, err = store.CreateInMemory(p)
	}()
	r.Eval(1)
	r.Count("events", len(evs))
	r.Count("depth_samples", samples)
	r.Sig(d.Shape(), len(d.All) >= 3)
	witness := func() map[string]any {
		return map[string]any{"case": idx, "document": d.Dump(), "events": len(evs)}
	}
	if err != nil {
		w := witness()
		w["what"] = "CreateInMemory failed on a conforming stream: " + errStr(err)
		r.Violate("build-error", w)
		return
	}
	if class, what := checkStore(root, d); class != "" {
		w := witness()
		w["what"] = what
		r.Violate(class, w)
		return
	}
	if maxExcess > 0 {
		w := witness()
		w["what"] = worst
		r.Violate("stack-per-event", w)
	}
	nsn := 0
	for _, e := range d.Elements() {
		nsn += len(e.NSNodes)
	}
	r.Count("namespace_nodes_checked", nsn)
	r.Count("cursors_checked", len(d.All))
	r.Sample("doc", 3, map[string]any{"case": idx, "document": d.Dump(), "events": len(evs), "cursors": len(d.All)})
}

// flatDoc: one element with n text/comment/element children (3 events per child element).
func flatEvents(n int) []adoc.Event {
	evs := make([]adoc.Event, 0, n+2)
	evs = append(evs, adoc.Event{Node: adoc.EElem{L: "r"}})
	for i := 0; len(evs) < n; i++ {
		switch i % 3 {
		case 0:
			evs = append(evs, adoc.Event{Node: adoc.EElem{L: "e"}, Depth: 1}, adoc.Event{End: true, Depth: 2})
		case 1:
			evs = append(evs, adoc.Event{Node: adoc.EText{V: "t"}, Depth: 1})
		default:
			evs = append(evs, adoc.Event{Node: adoc.EComment{V: "c"}, Depth: 1})
		}
	}
	evs = append(evs, adoc.Event{End: true, Depth: 1})
	return evs
}

// flatNSEvents: one element whose n/5 children each carry a namespace declaration (some two, some
// overriding the parent's binding) and an attribute.
func flatNSEvents(n int) []adoc.Event {
	evs := make([]adoc.Event, 0, n+8)
	evs = append(evs, adoc.Event{Node: adoc.EElem{L: "r"}}, adoc.Event{Node: adoc.ENS{P: "xml", V: adoc.XMLNS}, Depth: 1}, adoc.Event{Node: adoc.ENS{P: "p", V: "urn:a"}, Depth: 1})
	for i := 0; len(evs) < n; i++ {
		evs = append(evs, adoc.Event{Node: adoc.EElem{L: "e"}, Depth: 1}, adoc.Event{Node: adoc.ENS{P: "q", V: "urn:b"}, Depth: 2})
		if i%3 == 0 {
			evs = append(evs, adoc.Event{Node: adoc.ENS{P: "p", V: "urn:c"}, Depth: 2})
		}
		evs = append(evs, adoc.Event{Node: adoc.EAttr{L: "k", V: "v"}, Depth: 2}, adoc.Event{End: true, Depth: 2})
	}
	evs = append(evs, adoc.Event{End: true, Depth: 1})
	return evs
}

func chainEvents(depth int) []adoc.Event {
	evs := make([]adoc.Event, 0, 2*depth)
	for i := 0; i < depth; i++ {
		evs = append(evs, adoc.Event{Node: adoc.EElem{L: "d"}, Depth: i})
	}
	for i := depth; i > 0; i-- {
		evs = append(evs, adoc.Event{End: true, Depth: i})
	}
	return evs
}

// ChildC10 is run in a child process: build a big stream under a 64 MiB stack
// cap, sample call depth, verify the shape. Prints one line.
func ChildC10(kind string, n int) int {
	debug.SetMaxStack(64 << 20)
	var evs []adoc.Event
	switch kind {
	case "flat":
		evs = flatEvents(n)
	case "flatns":
		evs = flatNSEvents(n)
	default:
		evs = chainEvents(n)
	}
	maxExcess := 0
	p := &adoc.Scripted{Evs: evs}
	every := 1 + len(evs)/200
	p.OnPull = func(i int, ev *adoc.Event) {
		if ev == nil || i%every != 0 {
			return
		}
		if ex := callDepth() - (c10C0 + c10C1*ev.Depth); ex > maxExcess {
			maxExcess = ex
		}
	}
	root, err := store.CreateInMemory(p)
	if err != nil {
		fmt.Println("ERR", err)
		return 1
	}
	// shape + Pos check without recursion over the harness side for chains
	count, prev := 0, -1
	ok := true
	stack := []store.Cursor{root}
	for len(stack) > 0 {
		c := stack[len(stack)-1]
		stack = stack[:len(stack)-1]
		count++
		if c.Pos() <= prev {
			ok = false
		}
		prev = c.Pos()
		for _, x := range append(append([]store.Cursor{}, c.Namespaces()...), c.Attributes()...) {
			if x.Parent() != c || x.Pos() <= prev {
				ok = false
			}
			prev = x.Pos()
		}
		if kind == "flatns" && count > 2 && (len(c.Namespaces()) != 3 || len(c.Attributes()) != 1) {
			ok = false
		}
		ch := c.Children()
		for i := len(ch) - 1; i >= 0; i-- {
			if ch[i].Parent() != c {
				ok = false
			}
			stack = append(stack, ch[i])
		}
	}
	want := 1
	for _, ev := range evs {
		switch ev.Node.(type) {
		case adoc.ENS, adoc.EAttr:
		default:
			if !ev.End {
				want++
			}
		}
	}
	fmt.Printf("RESULT nodes=%d want=%d posok=%v excess=%d\n", count, want, ok, maxExcess)
	if count != want || !ok || maxExcess > 0 {
		return 1
	}
	return 0
}

func c10Post(r *evid.Run, tier string) {
	type job struct {
		kind string
		n    int
	}
	jobs := []job{{"flat", 100000}, {"chain", 2000}, {"flat", 1000000}, {"flatns", 100000}, {"flatns", 1000000}}
	if tier == "thorough" {
		jobs = append(jobs, job{"chain", 10000}, job{"flat", 10000000}, job{"flatns", 10000000})
	}
	self, _ := os.Executable()
	for _, j := range jobs {
		cmd := exec.Command(self, "child", "c10", j.kind, strconv.Itoa(j.n))
		done := make(chan struct{})
		var out []byte
		var err error
		go func() { out, err = cmd.CombinedOutput(); close(done) }()
		timedOut := false
		select {
		case <-done:
		case <-time.After(20 * time.Minute): // generous watchdog: inconclusive, not a violation
			cmd.Process.Kill()
			<-done
			timedOut = true
		}
		r.Eval(1)
		r.Count("big_stream_events", j.n)
		label := fmt.Sprintf("%s-%d", j.kind, j.n)
		r.Sig("big/"+label, true)
		if timedOut {
			r.Inconclusive("watchdog fired on " + label)
			continue
		}
		text := string(out)
		line := ""
		for _, l := range strings.Split(text, "\n") {
			if strings.HasPrefix(l, "RESULT") || strings.HasPrefix(l, "ERR") {
				line = l
			}
		}
		r.Tab("big_streams", label+": "+line, 1)
		if err != nil {
			if len(text) > 600 {
				text = text[:600] + "…"
			}
			what := fmt.Sprintf("building a %s stream of %d events in a child process (64 MiB stack cap): %v; output: %s", j.kind, j.n, err, text)
			r.Violate("big-stream/"+j.kind, map[string]any{"what": what, "kind": j.kind, "n": j.n})
		}
	}
}
