package mon

import (
	"fmt"
	"sync"

	"github.com/ChrisTrenkamp/xsel"

	"xselverif/internal/adoc"
	"xselverif/internal/bridge"
	"xselverif/internal/evid"
	"xselverif/internal/refeval"
	"xselverif/internal/rng"
	"xselverif/internal/xast"
)

// C03 — node-set results are duplicate-free, of the document, monotone; union laws.

func init() {
	Register(&Monitor{
		ID: "C03",
		Rule: "per generated document: random multi-step paths over all 13 axes from random context nodes, overlap makers (//x/.., //x/ancestor::*, //x/preceding::*/@*, ancestor::*/@*, //x/namespace::*, reverse axis followed by forward steps), unions of overlapping and reverse-ordered operands incl. node-set variables held in reverse order and as sub-slices; " +
			"oracle on every returned slice: no cursor identity twice, every cursor reachable from the queried root, Pos() strictly increasing or strictly decreasing, strictly increasing when the AST has no reverse axis or its top operator is '|'; also set-equal to the reference model; every tenth case queries two trees (a second document, or a clone of the first with coinciding positions) from 8 goroutines at once with //-paths and requires every result to consist of nodes of the queried tree and to equal the result obtained alone; " +
			"union laws on library results only: A|B == B|A and (A|B)|C == A|(B|C) as sequences, A|A set-equal A and ascending, count(A|B) = count(A)+count(B)-|A∩B| (counts from count() queries, intersection by identity). distinct_nontrivial = distinct (document shape, expression) with >= 2 result nodes",
		Assumptions: []string{"descending order is allowed for results of expressions that use a reverse axis (the existing tests pin it)", "a bare variable reference as the whole expression is not generated (it must evaluate to exactly the bound value, C11)"},
		NCases:      func(tier string) int { return map[string]int{"quick": 3000, "thorough": 60000}[tier] },
		Case:        c03Case,
	})
}

// sliceInvariants checks the raw result slice.
func sliceInvariants(w *world, e xast.Expr, ns xsel.NodeSet) string {
	seen := map[xsel.Cursor]bool{}
	for i, c := range ns {
		if seen[c] {
			return fmt.Sprintf("node %d (%s) appears twice", i, bridge.Describe(c))
		}
		seen[c] = true
		if _, ok := w.m.ToA[c]; !ok {
			return fmt.Sprintf("node %d (%s, Pos %d) is not a node of the queried document", i, bridge.Describe(c), c.Pos())
		}
	}
	asc, desc := true, true
	for i := 1; i < len(ns); i++ {
		if ns[i].Pos() <= ns[i-1].Pos() {
			asc = false
		}
		if ns[i].Pos() >= ns[i-1].Pos() {
			desc = false
		}
	}
	// document order as the data model defines it (an element, its namespace nodes, its attribute
	// nodes, its children), independently of the positions the store happened to assign
	oasc, odesc := true, true
	for i := 1; i < len(ns); i++ {
		a, b := w.m.ToA[ns[i-1]], w.m.ToA[ns[i]]
		if b.Ord <= a.Ord {
			oasc = false
		}
		if b.Ord >= a.Ord {
			odesc = false
		}
	}
	if asc != oasc || desc != odesc {
		return "the order of the result by Pos() " + posSeq(ns) + " is not document order as XPath 1.0 section 5 defines it (namespace nodes before attribute nodes before children)"
	}
	if !asc && !desc {
		return "Pos() sequence is neither strictly increasing nor strictly decreasing: " + posSeq(ns)
	}
	mustAsc := !xast.UsesReverseAxis(e)
	if b, ok := e.(xast.Binary); ok && b.Op == "|" {
		mustAsc = true
	}
	if mustAsc && !asc {
		return "result must be in ascending document order but Pos() sequence is " + posSeq(ns)
	}
	return ""
}

func posSeq(ns xsel.NodeSet) string {
	s := "["
	for i, c := range ns {
		if i > 0 {
			s += " "
		}
		if i >= 16 {
			s += "…"
			break
		}
		s += fmt.Sprint(c.Pos())
	}
	return s + "]"
}

func c03Case(r *evid.Run, tier string, idx int, g *rng.R) {
	o := adoc.GenOpts{MinNodes: 6, MaxNodes: 50, NS: g.Intn(3), Misc: g.P(50), Weird: g.P(25), NoXMLNS: g.P(30)}
	d := adoc.Generate(g, o)
	if o.NS > 0 && g.P(50) {
		adoc.NSQuirks(g, d, true)
		d.Finish()
	}
	if idx%25 == 11 {
		// a wide element and an element with many attributes: sizes around the usual strategy thresholds
		ws := adoc.Thresholds[:8]
		// (the same widths in both tiers: nested predicates over the sibling axes of a w-wide element cost up to w^4)
		adoc.Widen(g, d, rng.Pick(g, ws), false)
		adoc.ManyAttrs(g, d, rng.Pick(g, []int{5, 9, 12, 16, 17, 40}))
		d.Finish()
		r.Count("cases_with_wide_elements", 1)
	}
	w, err := newWorld(d)
	if err == nil && idx%4 == 3 {
		// every fourth case runs the evaluator on the independent Cursor implementation (R-ref)
		w, err = newRefWorld(d)
		r.Count("cases_on_reference_cursor", 1)
	}
	if err != nil {
		// duplicate or misplaced positions show up here first: a tree that does not mirror the stream
		r.Violate("store-tree-mismatch", map[string]any{"case": idx, "what": err.Error(), "document": d.Dump()})
		return
	}
	shape := d.Shape()
	elems, attrs, targets := vocab(d)
	cfg := &xast.Cfg{Elems: elems, Attrs: attrs, Prefixes: []string{"p", "q"}, Targets: targets, Axes: xast.Axes,
		MaxSteps: 4, MaxDepth: 1, PredPct: 25, Abbrev: 40, Unions: true, Filters: true, Funcs: c02Funcs, StrLits: []string{"1", "a"}}
	gen := &xast.Gen{R: g, C: cfg}

	// node-set variables: reverse-ordered, and a sub-slice with spare capacity
	var pool []*adoc.Node
	for _, n := range d.All {
		if g.P(30) {
			pool = append(pool, n)
		}
	}
	vset := refeval.NodeSet(adoc.SortDoc(pool))
	fwd := w.m.Lib(vset).(xsel.NodeSet)
	mkRev := func() xsel.NodeSet {
		rev := make(xsel.NodeSet, len(fwd), len(fwd)+4)
		for i := range fwd {
			rev[len(fwd)-1-i] = fwd[i]
		}
		return rev
	}
	half := vset[:len(vset)/2]
	w.env.Vars = map[refeval.Name]refeval.Value{{Local: "fwd"}: vset, {Local: "rev"}: vset, {Local: "half"}: half, {Local: "shuf"}: vset}
	cfg.Vars = []xast.VarSpec{{Local: "fwd", T: xast.TNodeSet}, {Local: "rev", T: xast.TNodeSet}, {Local: "half", T: xast.TNodeSet}, {Local: "shuf", T: xast.TNodeSet}}
	shufSeed := g.U64()
	binds := func() []xsel.ContextApply {
		// fresh slices per query so that earlier in-place sorting cannot heal later ones
		f := append(xsel.NodeSet{}, fwd...)
		sh := append(xsel.NodeSet{}, fwd...)
		rng.Shuffle(rng.New(shufSeed, "shuf"), sh)
		return []xsel.ContextApply{xsel.WithVariable("fwd", f), xsel.WithVariable("rev", mkRev()), xsel.WithVariable("half", f[:len(f)/2]), xsel.WithVariable("shuf", sh),
			// a custom function that extends the node-set it is handed as its context the ordinary Go way
			xsel.WithFunctionNS("urn:v", "with", func(ctx xsel.Context, args ...xsel.Result) (xsel.Result, error) {
				cur, _ := ctx.Result().(xsel.NodeSet)
				if len(args) > 0 {
					if more, ok := args[0].(xsel.NodeSet); ok {
						return append(cur, more...), nil
					}
				}
				return cur, nil
			}), xsel.WithNS("v", "urn:v")}
	}
	w.env.NS = map[string]string{"p": canonNS["p"], "q": canonNS["q"], "r": canonNS["r"], "xml": adoc.XMLNS, "v": "urn:v"}
	w.env.Funcs = map[refeval.Name]refeval.Func{{Space: "urn:v", Local: "with"}: func(c refeval.Ctx, cs refeval.NodeSet, a []refeval.Value) (refeval.Value, error) {
		out := refeval.NodeSet{c.Node}
		if len(a) > 0 {
			if more, ok := a[0].(refeval.NodeSet); ok {
				out = append(out, more...)
			}
		}
		return refeval.NodeSet(adoc.SortDoc(out)), nil
	}}

	// half of the reference-cursor cases query through a view that allocates a fresh cursor value
	// each time a node is reached: identity is Pos(), as the Cursor contract says
	lazy := w.ref && idx%8 == 7
	if lazy {
		r.Count("cases_on_lazily_allocated_cursors", 1)
	}
	run := func(class string, ctx *adoc.Node, e xast.Expr) (refeval.Value, xsel.NodeSet, bool) {
		s := xast.String(e)
		opts := append(append([]xsel.ContextApply{}, w.opts...), binds()...)
		start := w.m.ToC[ctx]
		if lazy {
			start = bridge.LazyOf(start)
			class = "lazy-cursors/" + class
		}
		res, err := ExecStr(start, s, opts...)
		if rs, ok := res.(xsel.NodeSet); ok && lazy {
			// strictly monotone Pos() first (two values of one node have equal Pos), then canonical values
			for i := 1; i < len(rs); i++ {
				if rs[i].Pos() == rs[i-1].Pos() {
					r.Violate(class+"/duplicate", map[string]any{"case": idx, "what": fmt.Sprintf("%s from %s: the node with Pos() %d occurs twice in the result (%s)", s, ctx.Path(), rs[i].Pos(), posSeq(rs)), "document": d.Dump()})
					return nil, nil, false
				}
			}
			cn := make(xsel.NodeSet, len(rs))
			for i, c := range rs {
				cn[i] = bridge.Canon(c)
			}
			res = cn
		}
		r.Eval(1)
		want, werr := w.modelEval(ctx, e)
		if err != nil || werr != nil {
			if (err != nil) != (werr != nil) {
				r.Violate(class+"/error", map[string]any{"case": idx, "what": fmt.Sprintf("%s from %s: library error %q, model error %v", s, ctx.Path(), errStr(err), werr), "document": d.Dump()})
			}
			return nil, nil, false
		}
		ns, ok := res.(xsel.NodeSet)
		if !ok {
			r.Violate(class+"/type", map[string]any{"case": idx, "what": fmt.Sprintf("%s: result is %T, not a node-set", s, res), "document": d.Dump()})
			return nil, nil, false
		}
		r.Count("node_sets_checked", 1)
		r.Count("result_nodes", len(ns))
		if msg := sliceInvariants(w, e, ns); msg != "" {
			r.Violate(class+"/slice", map[string]any{"case": idx, "what": fmt.Sprintf("%s from %s: %s", s, ctx.Path(), msg), "expr": s, "context": ctx.Path(), "document": d.Dump()})
			return nil, nil, false
		}
		got, _ := w.m.Value(res)
		if !bridge.Equal(want, got, false) {
			r.Violate(class+"/set", map[string]any{"case": idx, "what": fmt.Sprintf("%s from %s: library %s; expected %s", s, ctx.Path(), bridge.Show(got), bridge.Show(want)), "document": d.Dump()})
			return nil, nil, false
		}
		r.Sig(shape+"|"+s, len(ns) >= 2)
		if len(ns) >= 2 {
			r.Sample(class, 2, map[string]any{"case": idx, "expr": s, "context": ctx.Path(), "pos_sequence": posSeq(ns), "document": d.Dump()})
		}
		return got, ns, true
	}

	n := 25
	if tier == "thorough" {
		n = 40
	}
	for i := 0; i < n; i++ {
		ctx := rng.Pick(g, d.All)
		run("path", ctx, gen.RelPath(0))
	}
	// every element / attribute name of the document as a bare (abbreviated) last step: the order
	// of the result must not depend on how the name happens to be spelled
	for k, q := range elems {
		if k >= 10 {
			break
		}
		x := xast.Step{Axis: "child", Test: xast.NameT(q.Prefix, q.Local), Abbrev: true}
		run("bare-name", d.Root, xast.Abs(xast.DS(), x))
		run("bare-name", d.Root, xast.Abs(xast.DS(), xast.Step{Axis: "child", Test: xast.AnyT(), Abbrev: true}, x))
		run("bare-name", rng.Pick(g, d.All), xast.Rel(xast.S("ancestor-or-self", xast.NodeT()), x))
	}
	for k, q := range attrs {
		if k >= 6 {
			break
		}
		run("bare-name", d.Root, xast.Abs(xast.DS(), xast.Step{Axis: "attribute", Test: xast.NameT(q.Prefix, q.Local), Abbrev: true}))
	}
	// predicates that call a custom function which appends to its context node-set: the set being
	// filtered is the library's business, whatever the function does with the slice it was handed
	for i := 0; i < 4; i++ {
		x := xast.Step{Axis: "child", Test: anyNameC03(g, elems), Abbrev: true}
		arg := rng.Pick(g, []xast.Expr{xast.Abs(xast.S("child", xast.AnyT())), xast.Abs(xast.DS(), xast.S("child", xast.AnyT())), xast.Abs(xast.DS(), xast.Step{Axis: "attribute", Test: xast.AnyT(), Abbrev: true})})
		call := xast.Call{Prefix: "v", Local: "with", Args: []xast.Expr{arg}}
		filt := xast.Path{Head: xast.Paren{X: xast.Abs(xast.DS(), x)}, HPred: []xast.Expr{call}}
		step := xast.Abs(xast.DS(), xast.Step{Axis: "child", Test: x.Test, Abbrev: true, Preds: []xast.Expr{call}})
		for _, e := range []xast.Expr{filt, step, xast.Binary{Op: "|", L: filt, R: filt}, xast.Binary{Op: "|", L: xast.Abs(xast.DS(), x), R: step},
			xast.Path{Head: xast.Var{Local: "rev"}, HPred: []xast.Expr{call}}} {
			run("context-append", d.Root, e)
		}
	}
	// overlap makers
	anyName := func() xast.Test {
		if len(elems) > 0 && g.P(70) {
			q := rng.Pick(g, elems)
			return xast.NameT(q.Prefix, q.Local)
		}
		return xast.AnyT()
	}
	for i := 0; i < n/2; i++ {
		x := xast.Step{Axis: "child", Test: anyName(), Abbrev: true}
		rv := rng.Pick(g, []string{"ancestor", "preceding", "preceding-sibling", "ancestor-or-self"})
		fw := rng.Pick(g, []string{"child", "descendant", "following-sibling", "attribute", "namespace", "self", "following", "descendant-or-self"})
		makers := []xast.Expr{
			// namespace nodes and attributes (and children) of the same elements in one sorted set
			xast.Binary{Op: "|", L: xast.Abs(xast.DS(), x, xast.S("namespace", xast.AnyT())), R: xast.Abs(xast.DS(), x, xast.Step{Axis: "attribute", Test: xast.AnyT(), Abbrev: true})},
			xast.Binary{Op: "|", L: xast.Abs(xast.DS(), xast.S("child", xast.AnyT()), xast.S("namespace", xast.NodeT())), R: xast.Abs(xast.DS(), xast.S("child", xast.NodeT()))},
			xast.Abs(xast.DS(), x, xast.Step{Axis: "parent", Test: xast.NodeT(), Abbrev: true}),
			xast.Abs(xast.DS(), x, xast.S("ancestor", xast.AnyT())),
			xast.Abs(xast.DS(), x, xast.S("preceding", xast.AnyT()), xast.Step{Axis: "attribute", Test: xast.AnyT(), Abbrev: true}),
			xast.Abs(xast.DS(), x, xast.S("namespace", xast.AnyT())),
			xast.Abs(xast.DS(), x, xast.S(rv, xast.NodeT()), xast.S(fw, xast.NodeT())),
			xast.Abs(xast.DS(), x, xast.S(rv, xast.AnyT()), xast.Step{Axis: "attribute", Test: xast.AnyT(), Abbrev: true}),
			xast.Abs(xast.DS(), xast.Step{Axis: "attribute", Test: xast.AnyT(), Abbrev: true}, xast.S(rv, xast.NodeT()), xast.S(fw, xast.NodeT())),
			xast.Path{Head: xast.Var{Local: "rev"}, Steps: []xast.Step{xast.S(fw, xast.NodeT())}},
			xast.Path{Head: xast.Var{Local: "rev"}, Steps: []xast.Step{xast.S(rv, xast.NodeT()), xast.Step{Axis: "attribute", Test: xast.AnyT(), Abbrev: true}}},
		}
		run("overlap", d.Root, rng.Pick(g, makers))
		deep := rng.Pick(g, d.All)
		run("overlap", deep, xast.Rel(xast.S("ancestor", xast.AnyT()), xast.Step{Axis: "attribute", Test: xast.AnyT(), Abbrev: true}))
	}
	// several documents queried at the same time (every tenth case): whatever other trees are being
	// queried elsewhere in the process, a result holds nodes of the queried tree only, in order, and
	// equals the result obtained alone
	if idx%10 == 4 {
		d2 := adoc.Generate(g, o)
		if g.Bool() {
			d2 = d.Clone() // same shape, other tree: positions coincide
		}
		if w2, err2 := newWorld(d2); err2 == nil {
			type task struct {
				w    *world
				src  string
				want []xsel.Cursor
			}
			var tasks []task
			for _, ww := range []*world{w, w2} {
				el2, at2, _ := vocab(ww.d)
				exprs := []xast.Expr{xast.Abs(xast.DS(), xast.S("child", xast.AnyT())), xast.Abs(xast.DS(), xast.S("child", xast.NodeT())), xast.Abs(xast.S("descendant-or-self", xast.NodeT())),
					xast.Abs(xast.DS(), xast.Step{Axis: "attribute", Test: xast.AnyT(), Abbrev: true}), xast.Abs(xast.DS(), xast.S("child", xast.AnyT()), xast.S("following", xast.AnyT()))}
				for k, q := range el2 {
					if k < 4 {
						exprs = append(exprs, xast.Abs(xast.DS(), xast.Step{Axis: "child", Test: xast.NameT(q.Prefix, q.Local), Abbrev: true}))
					}
				}
				for k, q := range at2 {
					if k < 2 {
						exprs = append(exprs, xast.Abs(xast.DS(), xast.Step{Axis: "attribute", Test: xast.NameT(q.Prefix, q.Local), Abbrev: true}))
					}
				}
				for _, e := range exprs {
					src := xast.String(e)
					res, err := ExecStr(ww.m.Root, src, ww.opts...)
					if ns, ok := res.(xsel.NodeSet); err == nil && ok {
						tasks = append(tasks, task{ww, src, append([]xsel.Cursor{}, ns...)})
					}
				}
			}
			var mu sync.Mutex
			var bad []string
			var wg sync.WaitGroup
			const workers, rounds = 8, 60
			for wk := 0; wk < workers; wk++ {
				wg.Add(1)
				go func(wk int) {
					defer wg.Done()
					lg := rng.New(uint64(idx), fmt.Sprintf("c03conc/%d", wk))
					for k := 0; k < rounds; k++ {
						t := tasks[lg.Intn(len(tasks))]
						res, err := ExecStr(t.w.m.Root, t.src, t.w.opts...)
						msg := ""
						ns, ok := res.(xsel.NodeSet)
						switch {
						case err != nil || !ok:
							msg = fmt.Sprintf("%s failed while other documents were being queried: %v", t.src, errStr(err))
						default:
							if _, nerr := t.w.m.Nodes(ns); nerr != nil {
								msg = fmt.Sprintf("%s while other documents were being queried: %v", t.src, nerr)
							} else if len(ns) != len(t.want) {
								msg = fmt.Sprintf("%s returned %d nodes while other documents were being queried, %d alone", t.src, len(ns), len(t.want))
							} else {
								for i := range ns {
									if ns[i] != t.want[i] {
										msg = fmt.Sprintf("%s: node %d differs from the result obtained alone", t.src, i)
										break
									}
								}
							}
						}
						if msg != "" {
							mu.Lock()
							bad = append(bad, msg)
							mu.Unlock()
							return
						}
					}
				}(wk)
			}
			wg.Wait()
			r.Eval(workers * rounds)
			r.Count("queries_while_other_documents_are_queried", workers*rounds)
			r.Sig(shape+"|concurrent-documents|"+d2.Shape(), true)
			if len(bad) > 0 {
				r.Violate("other-document/concurrent", map[string]any{"case": idx, "what": bad[0], "document": d.Dump(), "other_document": d2.Dump()})
			}
		}
	}
	// unions and their laws
	operand := func() xast.Expr {
		switch g.Intn(7) {
		case 6:
			return xast.Var{Local: "shuf"}
		case 0:
			return xast.Var{Local: "rev"}
		case 1:
			return xast.Var{Local: "half"}
		case 2:
			return xast.Var{Local: "fwd"}
		}
		cfg.Unions, cfg.Filters = false, false
		p := gen.AbsPath(1)
		cfg.Unions, cfg.Filters = true, true
		return p
	}
	un := func(a, b xast.Expr) xast.Expr { return xast.Binary{Op: "|", L: a, R: b} }
	sameSeq := func(a, b xsel.NodeSet) bool {
		if len(a) != len(b) {
			return false
		}
		for i := range a {
			if a[i] != b[i] {
				return false
			}
		}
		return true
	}
	for i := 0; i < n/2; i++ {
		A, B, C := operand(), operand(), operand()
		_, ab, ok1 := run("union", d.Root, un(A, B))
		_, ba, ok2 := run("union", d.Root, un(B, A))
		_, abc1, ok3 := run("union", d.Root, un(un(A, B), C))
		_, abc2, ok4 := run("union", d.Root, un(A, xast.Paren{X: un(B, C)}))
		_, aa, ok5 := run("union", d.Root, un(A, A))
		if !(ok1 && ok2 && ok3 && ok4 && ok5) {
			continue
		}
		r.Count("union_law_checks", 4)
		law := func(name, what string) {
			r.Violate("union-law/"+name, map[string]any{"case": idx, "what": what, "A": xast.String(A), "B": xast.String(B), "C": xast.String(C), "document": d.Dump()})
		}
		if !sameSeq(ab, ba) {
			law("commutative", fmt.Sprintf("A|B gives %s but B|A gives %s", posSeq(ab), posSeq(ba)))
		}
		if !sameSeq(abc1, abc2) {
			law("associative", fmt.Sprintf("(A|B)|C gives %s but A|(B|C) gives %s", posSeq(abc1), posSeq(abc2)))
		}
		// A alone (wrapped so that a bare variable is never the whole expression)
		av, _, errA := w.libEval(d.Root, xast.String(xast.Fn("count", A)), binds()...)
		bv, _, errB := w.libEval(d.Root, xast.String(xast.Fn("count", B)), binds()...)
		uv, _, errU := w.libEval(d.Root, xast.String(xast.Fn("count", un(A, B))), binds()...)
		r.Eval(3)
		if errA != nil || errB != nil || errU != nil {
			law("count", fmt.Sprintf("count queries failed: %v %v %v", errA, errB, errU))
			continue
		}
		if float64(len(aa)) != av.(float64) {
			law("idempotent", fmt.Sprintf("A|A has %d nodes but count(A) is %v", len(aa), av))
		}
		// |A∩B| by identity from separately executed A and B (through a union with an empty set to get node-sets)
		ra, errRA := ExecStr(w.m.Root, xast.String(un(A, xast.Abs(xast.S("child", xast.NameT("", "no-such-element"))))), append(append([]xsel.ContextApply{}, w.opts...), binds()...)...)
		rb, errRB := ExecStr(w.m.Root, xast.String(un(B, xast.Abs(xast.S("child", xast.NameT("", "no-such-element"))))), append(append([]xsel.ContextApply{}, w.opts...), binds()...)...)
		if errRA != nil || errRB != nil {
			continue
		}
		inA := map[xsel.Cursor]bool{}
		for _, c := range ra.(xsel.NodeSet) {
			inA[c] = true
		}
		common := 0
		for _, c := range rb.(xsel.NodeSet) {
			if inA[c] {
				common++
			}
		}
		if uv.(float64) != av.(float64)+bv.(float64)-float64(common) {
			law("count", fmt.Sprintf("count(A|B)=%v but count(A)=%v, count(B)=%v, common nodes=%d", uv, av, bv, common))
		}
	}
}

func anyNameC03(g *rng.R, elems []xast.QN) xast.Test {
	if len(elems) > 0 && g.P(70) {
		q := rng.Pick(g, elems)
		return xast.NameT(q.Prefix, q.Local)
	}
	return xast.AnyT()
}
