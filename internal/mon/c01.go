package mon

import (
	"fmt"
	"github.com/ChrisTrenkamp/xsel"

	"xselverif/internal/adoc"
	"xselverif/internal/evid"
	"xselverif/internal/refeval"
	"xselverif/internal/rng"
	"xselverif/internal/xast"
)

// C01 — location steps select exactly the XPath 1.0 axis/node-test node set.

func init() {
	Register(&Monitor{
		ID: "C01",
		Rule: "per generated document (R-store): every node of every kind x 13 axes x node tests {node(), *, text(), comment(), processing-instruction(), pi('t') per target+absent, every QName of the document under the canonical bindings, an absent name, p:*, *:local} executed with Exec(cursor, 'axis::test') and compared as identity sets with the reference model; " +
			"abbreviations (x, @x, ., .., //x, .//x) vs the model of their expansions; random multi-step paths from random context nodes; absolute paths nested in predicates and function arguments from the root; " +
			"model-free relations on library results only: ancestor/descendant/following/preceding/self partition of all tree nodes, the four dual pairs over all node pairs, root has no parent/siblings, top-level children's sibling axes, ancestor reaches root. " +
			"distinct_nontrivial = distinct (document shape, context kind, axis, test class) whose expected set is non-empty and not the whole document",
		Assumptions: []string{"name tests on the namespace axis are outside the statement and not generated", "absolute paths are only evaluated with the root cursor as starting node", "attribute / namespace-node order inside one element is taken from the store"},
		NCases:      func(tier string) int { return map[string]int{"quick": 800, "thorough": 15000}[tier] },
		Case:        c01Case,
	})
}

func c01Tests(d *adoc.Doc, axis string) []xast.Test {
	ts := []xast.Test{{Kind: xast.TNode}, {Kind: xast.TAny}, {Kind: xast.TText}, {Kind: xast.TComment}, {Kind: xast.TPI}}
	if axis == "namespace" {
		return ts
	}
	elems, attrs, targets := vocab(d)
	for _, t := range append(targets, "absent") {
		ts = append(ts, xast.Test{Kind: xast.TPITarget, Local: t})
	}
	names := elems
	if axis == "attribute" {
		names = attrs
	}
	seenLocal := map[string]bool{}
	for _, q := range names {
		ts = append(ts, xast.Test{Kind: xast.TName, Prefix: q.Prefix, Local: q.Local})
		if !seenLocal[q.Local] {
			seenLocal[q.Local] = true
			ts = append(ts, xast.Test{Kind: xast.TLocalAny, Local: q.Local})
		}
	}
	// unprefixed names that spell a bound prefix (the namespace-axis URI rule must not leak onto other axes)
	ts = append(ts, xast.Test{Kind: xast.TName, Local: "p"}, xast.Test{Kind: xast.TName, Local: "q"}, xast.Test{Kind: xast.TName, Local: "xml"})
	ts = append(ts, xast.Test{Kind: xast.TName, Local: "absent"}, xast.Test{Kind: xast.TName, Prefix: "p", Local: "absent"},
		xast.Test{Kind: xast.TNSAny, Prefix: "p"}, xast.Test{Kind: xast.TNSAny, Prefix: "q"})
	return ts
}

func testClass(t xast.Test) string {
	return []string{"name", "*", "p:*", "*:l", "node()", "text()", "comment()", "pi()", "pi('t')"}[t.Kind]
}

func c01Case(r *evid.Run, tier string, idx int, g *rng.R) {
	o := adoc.GenOpts{MinNodes: 3, MaxNodes: 40, NS: g.Intn(3), Misc: true, Weird: g.P(30), Lang: g.P(10), Unicode: g.P(10), NoXMLNS: g.P(30)}
	if tier == "thorough" && idx%10 == 0 {
		o.MaxNodes = 300
	}
	if idx%25 == 11 {
		o.MaxNodes = 12
	}
	d := adoc.Generate(g, o)
	if o.NS > 0 && g.P(40) {
		adoc.NSQuirks(g, d, true)
		d.Finish()
	}
	if idx%25 == 11 {
		// a wide element and an element with many attributes: sizes around the usual strategy thresholds
		ws := adoc.Thresholds[:8]
		// (the same widths in both tiers: every axis from every node is quadratic in the width, and
		// a 300-wide element already costs minutes)
		adoc.Widen(g, d, rng.Pick(g, ws), false)
		adoc.ManyAttrs(g, d, rng.Pick(g, []int{5, 9, 12, 16, 17, 40}))
		d.Finish()
		r.Count("cases_with_wide_elements", 1)
	}
	if idx%100 == 12 {
		adoc.Deepen(g, d, rng.Pick(g, []int{17, 33, 65, 130}))
		d.Finish()
		r.Count("cases_with_a_deep_chain", 1)
	}
	w, err := newWorld(d)
	if err == nil && idx%4 == 3 {
		// every fourth case runs the evaluator on the independent Cursor implementation (R-ref)
		w, err = newRefWorld(d)
		r.Count("cases_on_reference_cursor", 1)
		if err == nil && idx%8 == 7 {
			// identity of nodes is Pos(): this view hands out a fresh cursor value on every access
			w.lazy = true
			r.Count("cases_on_lazily_allocated_cursors", 1)
		}
	}
	if err != nil {
		r.Violate("store-tree-mismatch", map[string]any{"case": idx, "what": err.Error(), "document": d.Dump()})
		return
	}
	if o.NS > 0 && idx%5 == 2 {
		// an embedding program that copies a document's in-scope namespaces into the query binds the
		// empty prefix too; unprefixed name tests still mean "no namespace" (XPath 1.0 section 2.3)
		w.opts = append(append([]xsel.ContextApply{}, w.opts...), xsel.WithNS("", rng.Pick(g, []string{"urn:a", "urn:b", "http://x.y/z"})))
		r.Count("cases_with_the_empty_prefix_bound", 1)
	}
	shape := d.Shape()
	total := len(d.All)
	// exhaustive single steps; remember axis::node() sets for the relations
	sets := map[string]map[*adoc.Node]map[*adoc.Node]bool{}
	for _, ax := range xast.Axes {
		sets[ax] = map[*adoc.Node]map[*adoc.Node]bool{}
		tests := c01Tests(d, ax)
		for _, n := range d.All {
			for _, t := range tests {
				e := xast.Rel(xast.S(ax, t))
				v, ok := w.check(r, "step/"+ax+"/"+n.Kind.String(), idx, n, e, false)
				r.Tab("axis_x_context", ax+" from "+n.Kind.String(), 1)
				if !ok {
					continue
				}
				r.Sig(fmt.Sprintf("%s|%s|%s|%s", shape, n.Kind, ax, testClass(t)), nontrivialSet(v, total))
				if t.Kind == xast.TNode {
					set := map[*adoc.Node]bool{}
					for _, x := range v.(refeval.NodeSet) {
						set[x] = true
					}
					sets[ax][n] = set
				}
			}
		}
	}
	c01Relations(r, idx, w, sets)
	// abbreviations
	elems, attrs, targets := vocab(d)
	for _, n := range d.All {
		forms := []xast.Path{
			xast.Rel(xast.Step{Axis: "self", Test: xast.NodeT(), Abbrev: true}),
			xast.Rel(xast.Step{Axis: "parent", Test: xast.NodeT(), Abbrev: true}),
			xast.Rel(xast.Step{Axis: "child", Test: xast.AnyT(), Abbrev: true}),
			xast.Rel(xast.Step{Axis: "attribute", Test: xast.AnyT(), Abbrev: true}),
			xast.Rel(xast.Step{Axis: "self", Test: xast.NodeT(), Abbrev: true}, xast.DS(), xast.Step{Axis: "child", Test: xast.AnyT(), Abbrev: true}),
			xast.Rel(xast.Step{Axis: "parent", Test: xast.NodeT(), Abbrev: true}, xast.Step{Axis: "parent", Test: xast.NodeT(), Abbrev: true}),
		}
		if len(elems) > 0 {
			q := rng.Pick(g, elems)
			forms = append(forms, xast.Rel(xast.Step{Axis: "child", Test: xast.NameT(q.Prefix, q.Local), Abbrev: true}),
				xast.Rel(xast.Step{Axis: "self", Test: xast.NodeT(), Abbrev: true}, xast.DS(), xast.Step{Axis: "child", Test: xast.NameT(q.Prefix, q.Local), Abbrev: true}))
		}
		if len(attrs) > 0 {
			q := rng.Pick(g, attrs)
			forms = append(forms, xast.Rel(xast.Step{Axis: "attribute", Test: xast.NameT(q.Prefix, q.Local), Abbrev: true}),
				xast.Rel(xast.Step{Axis: "self", Test: xast.NodeT(), Abbrev: true}, xast.DS(), xast.Step{Axis: "attribute", Test: xast.NameT(q.Prefix, q.Local), Abbrev: true}))
		}
		for _, f := range forms {
			v, ok := w.check(r, "abbrev/"+n.Kind.String(), idx, n, f, false)
			if ok {
				r.Sig(fmt.Sprintf("%s|%s|abbr|%s", shape, n.Kind, xast.String(f)), nontrivialSet(v, total))
			}
		}
	}
	if len(elems) > 0 {
		q := rng.Pick(g, elems)
		for _, f := range []xast.Path{
			xast.Abs(xast.DS(), xast.Step{Axis: "child", Test: xast.NameT(q.Prefix, q.Local), Abbrev: true}),
			xast.Abs(xast.DS(), xast.Step{Axis: "attribute", Test: xast.AnyT(), Abbrev: true}),
			xast.Abs(xast.DS(), xast.Step{Axis: "child", Test: xast.NodeT(), Abbrev: true}),
			xast.Abs(),
			xast.Abs(xast.Step{Axis: "child", Test: xast.AnyT(), Abbrev: true}),
		} {
			w.check(r, "abbrev/abs", idx, d.Root, f, false)
		}
	}
	// random multi-step paths from random context nodes; absolute ones (incl.
	// nested in predicates and arguments) from the root
	cfg := &xast.Cfg{Elems: elems, Attrs: attrs, Prefixes: []string{"p", "q", "r"}, Targets: targets,
		Axes: xast.Axes, MaxSteps: 5, MaxDepth: 1, PredPct: 0, Abbrev: 40,
		Funcs: map[string]bool{"count": true, "not": true}, StrLits: []string{"1", "a", ""}}
	gen := &xast.Gen{R: g, C: cfg}
	npaths := 14
	if tier == "thorough" {
		npaths = 30
	}
	for i := 0; i < npaths; i++ {
		n := rng.Pick(g, d.All)
		p := gen.RelPath(1)
		v, ok := w.check(r, "path/rel", idx, n, p, false)
		if ok {
			r.Sig(fmt.Sprintf("%s|%s|path|%s", shape, n.Kind, xast.String(p)), nontrivialSet(v, total))
			r.Sample("path", 3, map[string]any{"case": idx, "context": n.Path(), "expr": xast.String(p), "result": showBrief(v), "document": d.Dump()})
		}
	}
	// '//' (and its expansion) after a context set that mixes node kinds: unions of element,
	// attribute and namespace-node selections in document order
	for i := 0; i < npaths/2; i++ {
		mk := func() xast.Path {
			p := gen.AbsPath(1)
			switch g.Intn(4) {
			case 0:
				p.Steps = append(p.Steps, xast.Step{Axis: "attribute", Test: xast.AnyT(), Abbrev: true})
			case 1:
				p.Steps = append(p.Steps, xast.S("namespace", xast.NodeT()))
			}
			return p
		}
		head := xast.Paren{X: xast.Binary{Op: "|", L: mk(), R: mk()}}
		tail := rng.Pick(g, []xast.Step{
			xast.S("self", xast.NodeT()), {Axis: "self", Test: xast.NodeT(), Abbrev: true}, {Axis: "parent", Test: xast.NodeT(), Abbrev: true},
			xast.S("child", xast.NodeT()), xast.S("attribute", xast.AnyT()), xast.S("ancestor-or-self", xast.NodeT()), xast.S("following", xast.AnyT()), xast.S("namespace", xast.AnyT()),
		})
		abbr := xast.Path{Head: head, Steps: []xast.Step{xast.DS(), tail}}
		full := xast.Path{Head: head, Steps: []xast.Step{xast.S("descendant-or-self", xast.NodeT()), tail}}
		for _, e := range []xast.Path{abbr, full} {
			if v, ok := w.check(r, "path/mixed-context-dslash", idx, d.Root, e, false); ok {
				r.Sig(fmt.Sprintf("%s|mixed|%s", shape, xast.String(e)), nontrivialSet(v, total))
			}
		}
	}
	cfg2 := *cfg
	cfg2.Axes = nil
	cfg2.PredPct = 60
	cfg2.AbsInPred = true
	cfg2.MaxSteps = 3
	gen2 := &xast.Gen{R: g, C: &cfg2}
	for i := 0; i < npaths; i++ {
		var e xast.Expr
		inner := gen2.AbsPath(2)
		outer := gen2.AbsPath(2)
		switch g.Intn(4) {
		case 0: // //a[/r/b]
			outer.Steps[len(outer.Steps)-1].Preds = append(outer.Steps[len(outer.Steps)-1].Preds, inner)
			e = outer
		case 1: // count(//x[//y])
			outer.Steps[len(outer.Steps)-1].Preds = append(outer.Steps[len(outer.Steps)-1].Preds, inner)
			e = xast.Fn("count", outer)
		case 2: // //a[. = /r/@k]
			last := &outer.Steps[len(outer.Steps)-1]
			if !(last.Abbrev && (last.Axis == "self" || last.Axis == "parent")) {
				last.Preds = append(last.Preds, xast.Binary{Op: "=", L: xast.Rel(xast.Step{Axis: "self", Test: xast.NodeT(), Abbrev: true}), R: inner})
			}
			e = outer
		default:
			e = outer
		}
		// '.'/'..' cannot carry predicates
		if p, ok := e.(xast.Path); ok {
			if l := p.Steps[len(p.Steps)-1]; l.Abbrev && (l.Axis == "self" || l.Axis == "parent") && len(l.Preds) > 0 {
				continue
			}
		}
		if c, ok := e.(xast.Call); ok {
			p := c.Args[0].(xast.Path)
			if l := p.Steps[len(p.Steps)-1]; l.Abbrev && (l.Axis == "self" || l.Axis == "parent") && len(l.Preds) > 0 {
				continue
			}
		}
		v, ok := w.check(r, "path/abs-nested", idx, d.Root, e, false)
		if ok {
			nt := nontrivialSet(v, total)
			if f, isNum := v.(float64); isNum && f > 0 {
				nt = true
			}
			r.Sig(fmt.Sprintf("%s|abs|%s", shape, xast.String(e)), nt)
			r.Sample("abs-nested", 3, map[string]any{"case": idx, "expr": xast.String(e), "result": showBrief(v), "document": d.Dump()})
		}
	}
}

func showBrief(v refeval.Value) string {
	if ns, ok := v.(refeval.NodeSet); ok {
		return fmt.Sprintf("node-set of %d", len(ns))
	}
	return fmt.Sprintf("%v", v)
}

// c01Relations: model-free checks on the library's own axis::node() results.
func c01Relations(r *evid.Run, idx int, w *world, sets map[string]map[*adoc.Node]map[*adoc.Node]bool) {
	d := w.d
	viol := func(class, what string) {
		r.Violate("relation/"+class, map[string]any{"case": idx, "what": what, "document": d.Dump()})
	}
	var tree []*adoc.Node
	for _, n := range d.All {
		if n.Kind != adoc.Attr && n.Kind != adoc.NS {
			tree = append(tree, n)
		}
	}
	have := func(ax string, n *adoc.Node) map[*adoc.Node]bool { return sets[ax][n] }
	for _, n := range tree {
		parts := []string{"ancestor", "descendant", "following", "preceding"}
		ok := true
		for _, p := range parts {
			if have(p, n) == nil {
				ok = false
			}
		}
		if !ok {
			continue // a step check already failed for this node
		}
		r.Count("partition_checks", 1)
		for _, m := range tree {
			cnt := 0
			if m == n {
				cnt++
			}
			for _, p := range parts {
				if have(p, n)[m] {
					cnt++
				}
			}
			if cnt != 1 {
				viol("partition", fmt.Sprintf("from %s the node %s lies in %d of {ancestor, descendant, following, preceding, self} (must be exactly 1)", n.Path(), m.Path(), cnt))
				break
			}
		}
		for _, p := range parts {
			for m := range have(p, n) {
				if m.Kind == adoc.Attr || m.Kind == adoc.NS {
					viol("partition", fmt.Sprintf("%s::node() from %s contains the %s node %s", p, n.Path(), m.Kind, m.Path()))
				}
			}
		}
		if n.Kind != adoc.Root && !have("ancestor", n)[d.Root] {
			viol("ancestor-root", fmt.Sprintf("ancestor::node() from %s does not contain the root node", n.Path()))
		}
	}
	duals := [][2]string{{"child", "parent"}, {"descendant", "ancestor"}, {"following", "preceding"}, {"following-sibling", "preceding-sibling"}}
	for _, du := range duals {
		for _, n := range tree {
			for _, m := range tree {
				a, b := have(du[0], n), have(du[1], m)
				if a == nil || b == nil {
					continue
				}
				r.Count("dual_pairs", 1)
				if a[m] != b[n] {
					viol("dual/"+du[0], fmt.Sprintf("%s in %s::node() of %s is %v but %s in %s::node() of %s is %v", m.Path(), du[0], n.Path(), a[m], n.Path(), du[1], m.Path(), b[n]))
					break
				}
			}
		}
	}
	if s := have("parent", d.Root); s != nil && len(s) != 0 {
		viol("root-parent", "parent::node() of the root node is not empty")
	}
	for _, ax := range []string{"following-sibling", "preceding-sibling", "following", "preceding", "ancestor"} {
		if s := have(ax, d.Root); s != nil && len(s) != 0 {
			viol("root-"+ax, ax+"::node() of the root node is not empty")
		}
	}
	top := d.Root.Children
	for i, c := range top {
		fs, ps := have("following-sibling", c), have("preceding-sibling", c)
		if fs == nil || ps == nil {
			continue
		}
		r.Count("toplevel_sibling_checks", 1)
		if len(fs) != len(top)-1-i || len(ps) != i {
			viol("toplevel-siblings", fmt.Sprintf("top-level node %s has %d following and %d preceding siblings, expected %d and %d", c.Path(), len(fs), len(ps), len(top)-1-i, i))
		}
	}
}
