package mon

import (
	"bufio"
	"bytes"
	"encoding/json"
	"fmt"
	"os"
	"os/exec"
	"path/filepath"
	"regexp"
	"sort"
	"strconv"
	"strings"
	"sync"
	"time"

	"github.com/ChrisTrenkamp/xsel"

	"xselverif/internal/adoc"
	"xselverif/internal/bridge"
	"xselverif/internal/evid"
	"xselverif/internal/rng"
	"xselverif/internal/xast"
)

// C14 — shared documents and compiled queries are safe under concurrent use.

func init() {
	Register(&Monitor{
		ID: "C14",
		Rule: "library: a -race build of the harness runs rounds with a barrier start in which N in {2,4,8,16} goroutines execute PRNG-chosen (expression, start node) tasks from a shared pool against two cursor trees, one set of compiled Grammars and shared binding objects (the same ContextApply closure assigning the same maps CLI-style, the same NodeSet variables and a custom function returning one shared slice, and Unmarshal calls that all pass one option slice variadically — fresh per round, reverse-ordered and with spare capacity); each goroutine keeps its results privately and after Wait every result is compared with the serial baseline computed before the round; race reports are read from GORACE log files (exit codes are not trusted), counted and de-duplicated by the xsel frames involved; a report with a frame in xsel code is a violation, one entirely in harness code makes the run inconclusive. " +
			"CLI: the command built with -race -tags verif runs over generated file sets (unique id per file, empty results, outputs larger than a pipe buffer, malformed and unreadable files, files in a default or prefixed namespace with unqualified descendants next to files in no namespace) with -c 1 and -c N (N in {2,4,16,64}), -a/-m/-n variants and XSEL_VERIF_YIELD seeds; oracle: the -c N stdout cut into per-file blocks by the unique ids is a permutation of the -c 1 blocks, each block contiguous and byte-identical, stderr lines equal as multisets, no race report. distinct_nontrivial = distinct (goroutine count, completion-order hash) interleavings observed plus distinct CLI configurations",
		Assumptions: []string{"only interleavings that the scheduler (plus injected yields) produced are covered", "the race detector reports only races on accesses that actually executed"},
		NCases:      func(tier string) int { return 0 },
		Post:        c14Run,
	})
}

func c14Dir() string { return filepath.Join(evid.VerifDir, "work", "C14") }

// ---------- child: library stress under -race ----------

type c14Task struct {
	expr  int
	start int
	doc2  bool // start node is taken from the second document of the round
}

// ChildC14Lib runs in the -race binary. Prints JSON lines.
func ChildC14Lib(seed uint64, rounds int) int {
	out := json.NewEncoder(os.Stdout)
	totalMismatch := 0
	for round := 0; round < rounds; round++ {
		g := rng.New(seed, fmt.Sprintf("C14/round/%d", round))
		o := adoc.GenOpts{MinNodes: 10, MaxNodes: 50, NS: g.Intn(3), Misc: g.P(50)}
		d := adoc.Generate(g, o)
		m, err := bridge.FromStore(d)
		if err != nil {
			out.Encode(map[string]any{"round": round, "inconclusive": err.Error()})
			continue
		}
		elems, attrs, targets := vocab(d)
		cfg := &xast.Cfg{Elems: elems, Attrs: attrs, Prefixes: []string{"p", "q"}, Targets: targets, Axes: xast.Axes,
			MaxSteps: 3, MaxDepth: 1, PredPct: 30, Abbrev: 40, Unions: true, Filters: true, Funcs: c02Funcs, StrLits: []string{"1", "a"},
			Vars: []xast.VarSpec{{Local: "a", T: xast.TNodeSet}, {Local: "b", T: xast.TNodeSet}}}
		gen := &xast.Gen{R: g, C: cfg}
		va, vb := xast.Var{Local: "a"}, xast.Var{Local: "b"}
		var srcs []string
		for i := 0; i < 8; i++ {
			srcs = append(srcs, xast.String(gen.NodeSetExpr(0, g.Bool())))
		}
		for _, e := range []xast.Expr{
			xast.Binary{Op: "|", L: va, R: vb}, xast.Binary{Op: "|", L: vb, R: va}, xast.Binary{Op: "|", L: va, R: xast.Abs(xast.DS(), xast.S("child", xast.AnyT()))},
			xast.Path{Head: va, HPred: []xast.Expr{xast.N(1)}}, xast.Path{Head: vb, Steps: []xast.Step{xast.S("ancestor-or-self", xast.NodeT())}},
			xast.Fn("count", xast.Binary{Op: "|", L: va, R: vb}), xast.Fn("string", va), xast.Binary{Op: "=", L: va, R: vb},
			xast.Abs(xast.DS(), xast.S("child", xast.AnyT(), xast.Fn("last"))), xast.Fn("sum", xast.Abs(xast.DS(), xast.S("child", xast.Test{Kind: xast.TText}))),
			// a custom function handing out the shared, reverse-ordered slice itself
			xast.Path{Head: xast.Call{Prefix: "p", Local: "nodes"}, HPred: []xast.Expr{xast.N(1)}}, xast.Path{Head: xast.Call{Prefix: "p", Local: "nodes"}, HPred: []xast.Expr{xast.Fn("last")}},
			xast.Path{Head: xast.Paren{X: xast.Call{Prefix: "p", Local: "nodes"}}, HPred: []xast.Expr{xast.N(2)}, Steps: []xast.Step{xast.S("parent", xast.NodeT())}},
			xast.Fn("count", xast.Path{Head: xast.Call{Prefix: "p", Local: "nodes"}, Steps: []xast.Step{xast.Step{Axis: "attribute", Test: xast.AnyT(), Abbrev: true}}}),
			xast.Binary{Op: "|", L: xast.Call{Prefix: "p", Local: "nodes"}, R: vb},
		} {
			srcs = append(srcs, xast.String(e))
		}
		var grammars []*xsel.Grammar
		var kept []string
		for _, s := range srcs {
			gr, err := xsel.BuildExpr(s)
			if err == nil {
				gg := gr
				grammars = append(grammars, &gg)
				kept = append(kept, s)
			}
		}
		// shared bindings: fresh reverse-ordered NodeSets with spare capacity
		var some xsel.NodeSet
		for _, c := range m.Order {
			if g.P(40) {
				some = append(some, c)
			}
		}
		mk := func(base xsel.NodeSet) xsel.NodeSet {
			rev := make(xsel.NodeSet, len(base), len(base)+8)
			for i := range base {
				rev[len(base)-1-i] = base[i]
			}
			return rev
		}
		setA, setB := mk(some), mk(xsel.NodeSet(m.Order))
		if len(setB) > 4 {
			setB = setB[1 : len(setB)-2] // sub-slice with spare capacity in a shared backing array
		}
		sharedNS := map[string]string{"p": canonNS["p"], "q": canonNS["q"], "r": canonNS["r"]}
		sharedVars := map[xsel.XmlName]xsel.Result{{Local: "a"}: setA, {Local: "b"}: setB}
		setF := mk(some)
		sharedFns := map[xsel.XmlName]xsel.Function{{Space: canonNS["p"], Local: "nodes"}: func(ctx xsel.Context, args ...xsel.Result) (xsel.Result, error) {
			return setF, nil
		}}
		apply := func(c *xsel.ContextSettings) {
			c.NamespaceDecls = sharedNS
			c.Variables = sharedVars
			c.FunctionLibrary = sharedFns
		}
		// a second, unrelated tree queried by the same goroutines at the same time
		d2 := adoc.Generate(g, o)
		m2, err2 := bridge.FromStore(d2)
		var tasks []c14Task
		for i := range grammars {
			tasks = append(tasks, c14Task{i, 0, false})
			for k := 0; k < 2; k++ {
				tasks = append(tasks, c14Task{i, g.Intn(len(m.Order)), false})
			}
			if err2 == nil && i < 8 {
				tasks = append(tasks, c14Task{i, 0, true}, c14Task{i, g.Intn(len(m2.Order)), true})
			}
		}
		// Unmarshal through one option slice that all goroutines pass variadically (expr == -1)
		// (the entries only install the shared read-only maps: a With... helper after them would write into those maps itself)
		noop := func(c *xsel.ContextSettings) { _ = len(c.Variables) }
		sharedOpts := []xsel.ContextApply{apply, noop, noop}
		for k := 0; k < 4; k++ {
			tasks = append(tasks, c14Task{-1, g.Intn(len(m.Order)), false})
		}
		unmarshalKey := func(c xsel.Cursor, opts ...xsel.ContextApply) string {
			var t c13T1
			err := xsel.Unmarshal(xsel.NodeSet{c}, &t, opts...)
			return fmt.Sprintf("unmarshal:%+v|%v", t, err != nil)
		}
		startNode := func(t c14Task) xsel.Cursor {
			if t.doc2 {
				return m2.Order[t.start]
			}
			return m.Order[t.start]
		}
		// serial baseline on private copies of the variables (so the baseline itself cannot disturb the shared ones)
		baseVars := map[xsel.XmlName]xsel.Result{{Local: "a"}: append(xsel.NodeSet{}, setA...), {Local: "b"}: append(xsel.NodeSet{}, setB...)}
		baseF := append(xsel.NodeSet{}, setF...)
		baseApply := func(c *xsel.ContextSettings) {
			c.NamespaceDecls = map[string]string{"p": canonNS["p"], "q": canonNS["q"], "r": canonNS["r"]}
			c.Variables = baseVars
			c.FunctionLibrary = map[xsel.XmlName]xsel.Function{{Space: canonNS["p"], Local: "nodes"}: func(ctx xsel.Context, args ...xsel.Result) (xsel.Result, error) {
				return append(xsel.NodeSet{}, baseF...), nil
			}}
		}
		baseline := make([]string, len(tasks))
		for i, t := range tasks {
			if t.expr < 0 {
				baseline[i] = unmarshalKey(startNode(t), baseApply)
				continue
			}
			res, err := Exec(startNode(t), grammars[t.expr], baseApply)
			baseline[i] = resultKey(res, err)
		}
		N := []int{2, 4, 8, 16}[round%4]
		start := make(chan struct{})
		var wg sync.WaitGroup
		results := make([][]string, N)
		orders := make([][]int, N)
		var doneMu sync.Mutex
		var doneOrder []int
		for w := 0; w < N; w++ {
			wg.Add(1)
			wr := rng.New(seed, fmt.Sprintf("C14/round/%d/worker/%d", round, w))
			order := make([]int, 0, len(tasks)*2)
			for k := 0; k < len(tasks)*2; k++ {
				order = append(order, wr.Intn(len(tasks)))
			}
			orders[w] = order
			go func(w int) {
				defer wg.Done()
				mine := make([]string, 0, len(order))
				<-start
				for _, ti := range order {
					t := tasks[ti]
					if t.expr < 0 {
						mine = append(mine, unmarshalKey(startNode(t), sharedOpts...))
						continue
					}
					res, err := Exec(startNode(t), grammars[t.expr], apply)
					mine = append(mine, resultKey(res, err))
				}
				results[w] = mine
				doneMu.Lock()
				doneOrder = append(doneOrder, w)
				doneMu.Unlock()
			}(w)
		}
		close(start)
		wg.Wait()
		mism := 0
		var firstMism string
		execs := 0
		for w := 0; w < N; w++ {
			for k, ti := range orders[w] {
				execs++
				if results[w][k] != baseline[ti] {
					mism++
					if firstMism == "" {
						what := "Unmarshal through the shared option slice"
						if tasks[ti].expr >= 0 {
							what = kept[tasks[ti].expr]
						}
						firstMism = fmt.Sprintf("goroutine %d: Exec(node#%d, %s) = %s, serial result %s", w, tasks[ti].start, what, trunc(results[w][k]), trunc(baseline[ti]))
					}
				}
			}
		}
		totalMismatch += mism
		out.Encode(map[string]any{"round": round, "goroutines": N, "tasks": len(tasks), "execs": execs, "mismatches": mism, "first_mismatch": firstMism, "completion_order": fmt.Sprint(doneOrder), "document": d.Dump()})
	}
	out.Encode(map[string]any{"summary": true, "rounds": rounds, "mismatches": totalMismatch})
	return 0
}

// ---------- parent ----------

var raceHeader = regexp.MustCompile(`(?m)^WARNING: DATA RACE`)
var xselFrame = regexp.MustCompile(`github\.com/ChrisTrenkamp/xsel[\w/.]*\.[\w.()*]+`)
var xselFile = regexp.MustCompile(`/repo/[\w/.-]+\.go`)

type raceReport struct {
	text   string
	key    string
	inXsel bool
}

func readRaceLogs(prefix string) []raceReport {
	files, _ := filepath.Glob(prefix + ".*")
	var out []raceReport
	for _, f := range files {
		b, err := os.ReadFile(f)
		if err != nil {
			continue
		}
		idxs := raceHeader.FindAllIndex(b, -1)
		for i, ix := range idxs {
			end := len(b)
			if i+1 < len(idxs) {
				end = idxs[i+1][0]
			}
			text := string(b[ix[0]:end])
			frames := xselFrame.FindAllString(text, -1)
			seen := map[string]bool{}
			var uniq []string
			for _, fr := range frames {
				if !seen[fr] {
					seen[fr] = true
					uniq = append(uniq, fr)
				}
			}
			sort.Strings(uniq)
			rr := raceReport{text: text, inXsel: len(frames) > 0 || xselFile.MatchString(text)}
			rr.key = strings.Join(head(uniq, 6), " | ")
			if rr.key == "" {
				rr.key = "harness-only"
			}
			out = append(out, rr)
		}
	}
	return out
}

func cleanRaceLogs(prefix string) {
	files, _ := filepath.Glob(prefix + ".*")
	for _, f := range files {
		os.Remove(f)
	}
}

func binPath(name string) string { return filepath.Join(evid.VerifDir, "bin", name) }

func c14Run(r *evid.Run, tier string) {
	dir := c14Dir()
	os.RemoveAll(dir)
	os.MkdirAll(dir, 0o755)
	defer os.RemoveAll(dir)
	rounds := Scale(map[string]int{"quick": 160, "thorough": 1600}[tier])
	// ---- library ----
	logPrefix := filepath.Join(dir, "race-lib")
	cmd := exec.Command(binPath("xvmon-race"), "child", "c14lib", strconv.FormatUint(r.Seed, 10), strconv.Itoa(rounds))
	cmd.Env = append(os.Environ(), "GORACE=halt_on_error=0 log_path="+logPrefix)
	var stdout, stderr bytes.Buffer
	cmd.Stdout, cmd.Stderr = &stdout, &stderr
	err := runWithWatchdog(cmd, 40*time.Minute)
	if err == errWatchdog {
		r.Inconclusive("library stress child hit the watchdog")
	}
	sc := bufio.NewScanner(&stdout)
	sc.Buffer(make([]byte, 1<<22), 1<<22)
	sawSummary := false
	for sc.Scan() {
		var rec map[string]any
		if json.Unmarshal(sc.Bytes(), &rec) != nil {
			continue
		}
		if rec["summary"] == true {
			sawSummary = true
			continue
		}
		if msg, ok := rec["inconclusive"]; ok {
			r.Inconclusive(fmt.Sprint(msg))
			continue
		}
		n := int(rec["goroutines"].(float64))
		execs := int(rec["execs"].(float64))
		r.Eval(execs)
		r.Count("rounds", 1)
		r.Count("concurrent_execs", execs)
		r.Tab("goroutines", strconv.Itoa(n), 1)
		r.Sig(fmt.Sprintf("N=%d order=%v", n, rec["completion_order"]), true)
		if mm := int(rec["mismatches"].(float64)); mm > 0 {
			r.Violate("lib/concurrent-result-differs", map[string]any{"round": rec["round"], "what": fmt.Sprintf("%d of %d concurrent results differ from the serial execution; %v", mm, execs, rec["first_mismatch"]), "document": rec["document"]})
		} else {
			r.Sample("round", 2, map[string]any{"round": rec["round"], "goroutines": n, "execs": execs, "completion_order": rec["completion_order"]})
		}
	}
	if !sawSummary && err != errWatchdog {
		tail := stderr.String()
		if len(tail) > 1500 {
			tail = tail[len(tail)-1500:]
		}
		r.Violate("lib/child-died", map[string]any{"what": fmt.Sprintf("the -race stress process ended abnormally (%v): %s", err, tail)})
	}
	c14Races(r, "lib", logPrefix)
	// ---- CLI ----
	c14CLI(r, tier, dir)
}

func c14Races(r *evid.Run, part, logPrefix string) {
	reports := readRaceLogs(logPrefix)
	r.Count(part+"_race_reports", len(reports))
	byKey := map[string]int{}
	for _, rr := range reports {
		byKey[rr.key]++
	}
	for k, n := range byKey {
		r.Tab(part+"_race_dedupe", k, n)
	}
	seen := map[string]bool{}
	for _, rr := range reports {
		if seen[rr.key] {
			continue
		}
		seen[rr.key] = true
		if rr.inXsel {
			text := rr.text
			if len(text) > 3000 {
				text = text[:3000] + "…"
			}
			r.Violate(part+"/data-race", map[string]any{"what": "race detector report involving xsel code: " + rr.key, "report": text})
		} else {
			r.Inconclusive("race report entirely inside harness code: " + trunc(rr.text))
			r.Broken("race report entirely inside harness code")
		}
	}
}

var errWatchdog = fmt.Errorf("watchdog")

func runWithWatchdog(cmd *exec.Cmd, d time.Duration) error {
	if err := cmd.Start(); err != nil {
		return err
	}
	done := make(chan error, 1)
	go func() { done <- cmd.Wait() }()
	select {
	case err := <-done:
		return err
	case <-time.After(d):
		cmd.Process.Kill()
		<-done
		return errWatchdog
	}
}

// ---- CLI part ----

var fileIDRe = regexp.MustCompile(`F(\d{4})_`)

func c14CLI(r *evid.Run, tier, dir string) {
	nsets := Scale(map[string]int{"quick": 6, "thorough": 40}[tier])
	for si := 0; si < nsets; si++ {
		g := rng.New(r.Seed, fmt.Sprintf("C14/cli/%d", si))
		fdir := filepath.Join(dir, fmt.Sprintf("set%d", si))
		os.MkdirAll(fdir, 0o755)
		nfiles := g.Range(10, 60)
		if si%3 == 2 {
			nfiles = g.Range(100, 200)
		}
		var args []string
		for fi := 0; fi < nfiles; fi++ {
			id := fmt.Sprintf("F%04d_", fi)
			name := filepath.Join(fdir, fmt.Sprintf("f%04d.xml", fi))
			var sb strings.Builder
			switch {
			case g.P(6):
				sb.WriteString("<r><unclosed>" + id) // malformed
			case g.P(6):
				sb.WriteString("<r><other>" + id + "</other></r>") // empty result
			default:
				sb.WriteString("<r>")
				nitems := g.Range(1, 6)
				if g.P(8) {
					nitems = 3000 // > 64 KiB of output
				}
				// a third of the files are namespaced (default namespace with unqualified children that
				// need xmlns="" when printed with -m, or prefixed elements around unqualified ones)
				switch kind := g.Intn(6); kind {
				case 0:
					sb.Reset()
					sb.WriteString(`<r xmlns="urn:d">`)
					for k := 0; k < nitems; k++ {
						fmt.Fprintf(&sb, "<item n=\"%d\">%sitem%d <b xmlns=\"\">x<c/></b><e><f xmlns=\"urn:e\"/></e></item>", k, id, k)
					}
				case 1:
					sb.Reset()
					sb.WriteString(`<p:r xmlns:p="urn:a">`)
					for k := 0; k < nitems; k++ {
						fmt.Fprintf(&sb, "<p:item n=\"%d\">%sitem%d <b>x<p:c/></b></p:item>", k, id, k)
					}
					sb.WriteString("</p:r>")
				default:
					for k := 0; k < nitems; k++ {
						fmt.Fprintf(&sb, "<item n=\"%d\">%sitem%d <b>x</b></item>", k, id, k)
					}
				}
				if !strings.HasSuffix(sb.String(), "</p:r>") {
					sb.WriteString("</r>")
				}
			}
			os.WriteFile(name, []byte(sb.String()), 0o644)
			args = append(args, name)
			if g.P(4) {
				args = append(args, filepath.Join(fdir, fmt.Sprintf("missing%04d.xml", fi)))
			}
		}
		mode := []string{"-a"}
		switch si % 4 {
		case 0:
			mode = []string{"-m"}
		case 1:
			mode = []string{"-a", "-n"}
		case 2:
			mode = []string{}
		}
		expr := "//*[local-name()='item']"
		base := append(append([]string{"-x", expr}, mode...), args...)
		run := func(extra []string, yield string) (string, string, []raceReport, error) {
			logPrefix := filepath.Join(dir, "race-cli")
			cleanRaceLogs(logPrefix)
			cmd := exec.Command(binPath("xsel-race"), append(extra, base...)...)
			cmd.Env = append(os.Environ(), "GORACE=halt_on_error=0 log_path="+logPrefix)
			if yield != "" {
				cmd.Env = append(cmd.Env, "XSEL_VERIF_YIELD="+yield)
			}
			var so, se bytes.Buffer
			cmd.Stdout, cmd.Stderr = &so, &se
			err := runWithWatchdog(cmd, 20*time.Minute)
			return so.String(), se.String(), readRaceLogs(logPrefix), err
		}
		serialOut, serialErr, races, err := run([]string{"-c", "1"}, "")
		if err == errWatchdog {
			r.Inconclusive("CLI -c 1 hit the watchdog")
			continue
		}
		serialBlocks, _ := cutBlocks(serialOut, mode)
		for _, N := range []int{2, 4, 16, 64} {
			if tier == "quick" && (si+N/2)%2 == 1 {
				continue
			}
			yield := fmt.Sprintf("%d-%d", r.Seed, si*100+N)
			out, errOut, rc, err := run([]string{"-c", strconv.Itoa(N)}, yield)
			r.Eval(1)
			r.Count("cli_runs", 1)
			r.Count("cli_files", nfiles)
			if err == errWatchdog {
				r.Inconclusive("CLI -c N hit the watchdog")
				continue
			}
			races = append(races, rc...)
			blocks, contiguous := cutBlocks(out, mode)
			var order []string
			for _, b := range blocksOrder(out) {
				order = append(order, b)
			}
			r.Sig(fmt.Sprintf("cli N=%d mode=%v files=%d order=%s", N, mode, nfiles, hashStrings(order)), true)
			what := ""
			if !contiguous {
				what = "a file's output block is not contiguous in the -c N output"
			} else if len(blocks) != len(serialBlocks) {
				what = fmt.Sprintf("-c %d printed blocks for %d files, -c 1 for %d", N, len(blocks), len(serialBlocks))
			} else {
				for id, b := range serialBlocks {
					if blocks[id] != b {
						what = fmt.Sprintf("the output block of file %s differs between -c 1 and -c %d (%d vs %d bytes)", id, N, len(b), len(blocks[id]))
						break
					}
				}
			}
			if what == "" && !sameLineMultiset(serialErr, errOut) {
				what = "stderr diagnostics differ as multisets between -c 1 and -c N"
			}
			if what != "" {
				r.Violate("cli/blocks", map[string]any{"what": what, "set": si, "N": N, "mode": mode, "files": nfiles, "yield": yield})
			} else {
				r.Sample("cli", 2, map[string]any{"set": si, "N": N, "mode": mode, "files": nfiles, "blocks": len(blocks), "stdout_bytes": len(out), "stderr_lines": strings.Count(errOut, "\n")})
			}
		}
		// race reports of the CLI runs
		byKey := map[string]bool{}
		r.Count("cli_race_reports", len(races))
		for _, rr := range races {
			if byKey[rr.key] {
				continue
			}
			byKey[rr.key] = true
			text := rr.text
			if len(text) > 3000 {
				text = text[:3000] + "…"
			}
			r.Violate("cli/data-race", map[string]any{"what": "race detector report in the CLI: " + rr.key, "report": text})
		}
		os.RemoveAll(fdir)
	}
}

// cutBlocks splits stdout into per-file blocks by the unique ids; reports
// whether every file's lines are contiguous.
func cutBlocks(out string, mode []string) (map[string]string, bool) {
	blocks := map[string]string{}
	contiguous := true
	cur := ""
	closed := map[string]bool{}
	for _, line := range strings.SplitAfter(out, "\n") {
		if line == "" {
			continue
		}
		m := fileIDRe.FindStringSubmatch(line)
		id := cur
		if m != nil {
			id = m[1]
		}
		if id != cur {
			if cur != "" {
				closed[cur] = true
			}
			if closed[id] {
				contiguous = false
			}
			cur = id
		}
		blocks[id] += line
	}
	return blocks, contiguous
}

func blocksOrder(out string) []string {
	var order []string
	last := ""
	for _, line := range strings.Split(out, "\n") {
		if m := fileIDRe.FindStringSubmatch(line); m != nil && m[1] != last {
			order = append(order, m[1])
			last = m[1]
		}
	}
	return order
}

func hashStrings(xs []string) string {
	h := uint64(1469598103934665603)
	for _, x := range xs {
		for i := 0; i < len(x); i++ {
			h = (h ^ uint64(x[i])) * 1099511628211
		}
		h = (h ^ 0xff) * 1099511628211
	}
	return strconv.FormatUint(h, 16)
}

func sameLineMultiset(a, b string) bool {
	la, lb := strings.Split(a, "\n"), strings.Split(b, "\n")
	sort.Strings(la)
	sort.Strings(lb)
	return strings.Join(la, "\n") == strings.Join(lb, "\n")
}
