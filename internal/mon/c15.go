package mon

import (
	"bufio"
	"bytes"
	"encoding/json"
	"fmt"
	"os"
	"os/exec"
	"path/filepath"
	"strconv"
	"strings"
	"sync"
	"sync/atomic"
	"syscall"
	"time"

	"github.com/ChrisTrenkamp/xsel"

	"xselverif/internal/adoc"
	"xselverif/internal/bridge"
	"xselverif/internal/evid"
	"xselverif/internal/rng"
	"xselverif/internal/xast"
)

// C15 — no input crashes the library: failures are returned as errors.

func init() {
	Register(&Monitor{
		ID: "C15",
		Rule: "hostile inputs to every public entry point, executed in child processes that journal each case (kind and raw input) before running it: random bytes; valid expressions/documents mutated at byte and token level; grammar-aware extremes (nested parentheses, flat chains of up to 120 operands for every binary operator with operands that decide / do not decide the result early, long step/predicate chains, very long names) sized for the super-linear GLL parser; XML/HTML/JSON with deep nesting and pathological constructs; XML document type declarations whose internal subsets are assembled from well-formed and broken ENTITY/ELEMENT/ATTLIST/NOTATION pieces; every expression of a pool against every document of a pool; bindings with nil values and user functions that return (nil,nil), an error or panic; Unmarshal targets nil / non-pointers / nil pointers / pointer chains / maps / arrays / channels / funcs / interfaces / self- and mutually-recursive struct and pointer types; Exec with a nil cursor and a nil or zero Grammar; well-typed random queries over the whole builtin palette; a custom function returning a proper node-set in every position a primary expression or step can take (union operand, path head, filter, predicate, argument, step); " +
			"oracle: every call returns within the per-case budget of 30 s of the child's processor time (rusage, not wall-clock; >= 10^3 x the slowest case on the unchanged tree) and returns (value, nil) or (_, error): a case over the budget (child stops, parent resumes after it), a panic escaping the API, a dead child (attributed to the journaled case), or (nil, nil) is a violation; for well-typed queries an error containing 'xpath query panic' is a violation. distinct_nontrivial = distinct (entry point, input class, outcome) triples where the outcome is not a plain success",
		Assumptions: []string{"'terminates' is decided as 'returns within 30 s of processor time' for inputs of the generated sizes; the 20 min wall-clock watchdog around a shard only makes the run inconclusive", "inputs are sized so that the pinned tree answers each within seconds (GLL parsing is super-linear)"},
		NCases:      func(tier string) int { return 0 },
		Post:        c15Run,
	})
}

type c15Case struct {
	Kind  string
	Input string
}

const c15Shards = 16

func c15PerShard(tier string) int {
	return Scale(map[string]int{"quick": 20000, "thorough": 500000}[tier])
}

var c15Docs = []string{
	`<r><a id="1">x<b>2</b></a><a id="2"> 3 </a><!--c--><?pi d?></r>`,
	`<p:r xmlns:p="urn:a" xmlns="urn:b"><a p:k="v" xml:lang="en">é</a><p:a/>t</p:r>`,
	`<r/>`,
}

// charset labels: the WHATWG ones, IANA names with and without decoders, and junk
var c15Charsets = []string{"UTF-8", "utf8", "US-ASCII", "ascii", "ISO-8859-1", "latin1", "ISO-8859-2", "ISO-8859-15", "windows-1252", "windows-1251", "KOI8-R", "KOI8-U", "macintosh", "IBM866",
	"UTF-16", "UTF-16LE", "UTF-16BE", "UTF-32", "UTF-32BE", "UTF-32LE", "UTF-7", "UTF-1", "ISO-10646-UCS-2", "ISO-10646-UCS-4", "ISO-10646-UTF-1", "UNICODE-1-1", "SCSU", "BOCU-1", "CESU-8",
	"GB2312", "GBK", "gb18030", "Big5", "Big5-HKSCS", "EUC-JP", "Shift_JIS", "ISO-2022-JP", "ISO-2022-KR", "ISO-2022-CN", "EUC-KR", "HZ-GB-2312", "EBCDIC-US", "IBM037", "IBM437", "IBM850", "IBM1047",
	"TIS-620", "windows-874", "ISO-8859-16", "ISO-8859-10", "ISO-8859-11", "ISO_8859-1:1987", "csISOLatin1", "x-user-defined", "replacement", "x-mac-cyrillic", "ANSI_X3.4-1968", "ISO646-US",
	"DEC-MCS", "hp-roman8", "VISCII", "Adobe-Standard-Encoding", "KS_C_5601-1987", "JIS_X0201", "NATS-SEFI", "INVARIANT", "Amiga-1251", "TSCII", "PTCP154", "KZ-1048", "", " ", "x", "nope", "utf-8 ", "\x00"}

var c15Exprs = []string{"/", "//a", "//*[1]", "//a[@id=2]/..", "count(//node())", "sum(//a)", "string(//b)", "//a|//b", "(//a)[last()]/b", "//text()[. > 2]", "name(//*[2])", "//a[position() mod 2 = 1]",
	"substring(//a, 2, 3)", "translate(//a,'x','y')", "normalize-space(/r)", "lang('en')", "//a/following::node()", "//b/ancestor-or-self::*", "//@*", "//namespace::*", "1 div 0", "-//a", "//a = //b", "boolean(//a) and not(//zz)",
	"concat(//a, 'x', 1)", "round(-2.5)", "floor(//b)", "$v", "f()", "p:f(1)", "//p:a", "id('x')", "//a[f()]", "string-length()", "//a/string()", "//comment()|//processing-instruction('pi')"}

// c15Gen produces case i of a shard.
func c15Gen(g *rng.R) c15Case {
	randBytes := func(n int) string {
		b := make([]byte, n)
		for i := range b {
			b[i] = byte(g.Intn(256))
		}
		return string(b)
	}
	alpha := func(n int, alphabet string) string {
		var sb strings.Builder
		for i := 0; i < n; i++ {
			sb.WriteByte(alphabet[g.Intn(len(alphabet))])
		}
		return sb.String()
	}
	mutate := func(s string) string {
		b := []byte(s)
		for k := g.Range(1, 3); k > 0 && len(b) > 0; k-- {
			i := g.Intn(len(b))
			switch g.Intn(5) {
			case 0:
				b = append(b[:i], b[i+1:]...)
			case 1:
				b[i] = byte(g.Intn(256))
			case 2:
				b = append(b[:i], append([]byte{b[i]}, b[i:]...)...)
			case 3:
				j := g.Intn(len(b))
				b[i], b[j] = b[j], b[i]
			default:
				ins := rng.Pick(g, []string{"(", ")", "[", "]", "/", "//", "::", "@", "*", "|", "'", "\"", "$", ",", ".", "..", " ", "-", "<", "&", ">", "{", "}", ":", "\x00", "\xff"})
				b = append(b[:i], append([]byte(ins), b[i:]...)...)
			}
		}
		return string(b)
	}
	switch k := g.Intn(100); {
	case k < 8:
		return c15Case{"expr/random-bytes", randBytes(g.Range(0, 40))}
	case k < 20:
		return c15Case{"expr/xpath-alphabet", alpha(g.Range(1, 30), "ab/*[]()@.:|=<>!+-,'\"$ 0123456789dimov")}
	case k < 40:
		return c15Case{"expr/mutated", mutate(rng.Pick(g, c15Exprs))}
	case k < 43:
		n := g.Range(1, 120)
		switch g.Intn(9) {
		case 0:
			return c15Case{"expr/extreme", strings.Repeat("(", n) + "1" + strings.Repeat(")", n)}
		case 1:
			return c15Case{"expr/extreme", "1" + strings.Repeat("+1", n*2)}
		case 2:
			return c15Case{"expr/extreme", "a" + strings.Repeat("/a", n)}
		case 3:
			return c15Case{"expr/extreme", "a" + strings.Repeat("[1]", n)}
		case 4:
			return c15Case{"expr/extreme", "//" + strings.Repeat("n", n*200)}
		case 5:
			return c15Case{"expr/extreme", strings.Repeat("-", n) + "1"}
		}
		// long flat operator chains whose operands do not decide the result early (and ones that do)
		operand := rng.Pick(g, []string{"0", "1", "//zz", "/r/a", "//a", "false()", "true()", "'x'", "''", "1=2", "//b=2", "$v", "@id", "."})
		op := rng.Pick(g, []string{" or ", " and ", " or ", " and ", " | ", " = ", " != ", " < ", " + ", " - ", " * ", " div ", " mod "})
		if op == " | " {
			operand = rng.Pick(g, []string{"//zz", "/r/a", "//a", "//b", "@id", ".", "$v"})
		}
		chain := operand + strings.Repeat(op+operand, n)
		if g.P(30) {
			chain += op + rng.Pick(g, []string{"0", "1", "//a", "//zz"})
		}
		if g.P(20) {
			chain = "//a[" + chain + "]"
		}
		return c15Case{"expr/chain", chain}
	case k < 46:
		label := rng.Pick(g, c15Charsets)
		if g.P(15) {
			label = mutate(label)
		}
		body := rng.Pick(g, []string{"<r/>", "<r>caf\xe9</r>", "<r a='\xa4'>\xc3\xa9</r>", "<r>x</r>"})
		return c15Case{"xml/encoding-label", "<?xml version=\"1.0\" encoding=\"" + label + "\"?>" + body}
	case k < 48:
		// document type declarations with internal subsets assembled from well-formed and broken pieces
		pieces := []string{`<!ENTITY e "v">`, `<!ENTITY e>`, `<!ENTITY>`, `<!ENTITY e 'a<b>c'>`, `<!ENTITY % p "x">`, `<!ENTITY e SYSTEM "u">`, `<!ENTITY e "v"`, `<!ENTITY\te\n"v">`, `<!ENTITY e "<!ENTITY f>">`,
			`<!ELEMENT r ANY>`, `<!ELEMENT r (a|b)*>`, `<!ATTLIST r id ID #IMPLIED>`, `<!ATTLIST r>`, `<!NOTATION n SYSTEM "s">`, `<!-- c -->`, `<?pi d?>`, `%p;`, ` `, `\n`, `]`, `[`, `<!`, `>`, `<!ENTITY e "&#60;">`, `<!ENTITY lt "x">`, `<!DOCTYPE x>`}
		var sb strings.Builder
		sb.WriteString(rng.Pick(g, []string{"<!DOCTYPE r [", "<!DOCTYPE r SYSTEM \"u\" [", "<!DOCTYPE r[", "<?xml version=\"1.0\"?><!DOCTYPE r [", "<!doctype r ["}))
		for i := g.Range(0, 4); i > 0; i-- {
			sb.WriteString(rng.Pick(g, pieces))
		}
		sb.WriteString(rng.Pick(g, []string{"]>", "]>", "]>", "] >", ">", "]", ""}))
		sb.WriteString(rng.Pick(g, []string{"<r/>", "<r>&e;</r>", "<r a='&e;'/>", "<r>&lt;&f;</r>", ""}))
		out := sb.String()
		if g.P(20) {
			out = mutate(out)
		}
		return c15Case{"xml/doctype", out}
	case k < 50:
		return c15Case{"xml/random-bytes", randBytes(g.Range(0, 60))}
	case k < 60:
		return c15Case{"xml/mutated", mutate(rng.Pick(g, c15Docs))}
	case k < 62:
		n := g.Range(10, 3000)
		switch g.Intn(4) {
		case 0:
			return c15Case{"xml/extreme", strings.Repeat("<a>", n) + strings.Repeat("</a>", n)}
		case 1:
			return c15Case{"xml/extreme", "<r " + strings.Repeat("xmlns:p"+alpha(3, "abc")+"='u' ", n/10) + "/>"}
		case 2:
			return c15Case{"xml/extreme", "<r>" + strings.Repeat("<![CDATA[x]]>", n) + "</r>"}
		default:
			return c15Case{"xml/extreme", strings.Repeat("<a>", n)}
		}
	case k < 68:
		return c15Case{"html/random", "<!DOCTYPE html>" + alpha(g.Range(0, 60), "<>/ abdivtrple=\"'&;!-")}
	case k < 72:
		return c15Case{"html/random-bytes", randBytes(g.Range(0, 60))}
	case k < 73:
		n := g.Range(10, 2000)
		return c15Case{"html/extreme", "<!DOCTYPE html>" + strings.Repeat(rng.Pick(g, []string{"<div>", "<b>", "<table>", "<svg>", "<a>"}), n)}
	case k < 80:
		return c15Case{"json/random", alpha(g.Range(0, 40), "{}[]\":,0123456789.eE-+ truefalsn\\u")}
	case k < 83:
		return c15Case{"json/random-bytes", randBytes(g.Range(0, 40))}
	case k < 84:
		n := g.Range(10, 5000)
		return c15Case{"json/extreme", strings.Repeat("[", n) + strings.Repeat("]", g.Intn(n+1))}
	case k < 88:
		return c15Case{"exec/bindings", strconv.Itoa(g.Intn(1 << 30))}
	case k < 90:
		return c15Case{"exec/nil-args", strconv.Itoa(g.Intn(8))}
	case k < 92:
		return c15Case{"unmarshal/targets", strconv.Itoa(g.Intn(1 << 30))}
	case k < 94:
		return c15Case{"exec/custom-function-positions", strconv.Itoa(g.Intn(1 << 30))}
	default:
		return c15Case{"exec/well-typed", strconv.Itoa(g.Intn(1 << 30))}
	}
}

// recursive target types: the recursion goes through tagged fields
type c15Tree struct {
	Name string    `xsel:"name()"`
	Kids []c15Tree `xsel:"*"`
}

type c15List struct {
	V    string   `xsel:"text()"`
	Next *c15List `xsel:"*[1]"`
}

type c15Mutual struct {
	ID    string     `xsel:"@id"`
	Other []c15Peer  `xsel:"*"`
	Up    *c15Mutual `xsel:"self::nomatch"`
}

type c15Peer struct {
	Back []*c15Mutual `xsel:"*"`
}

type c15PtrLoop *c15PtrLoop

type c15Result struct {
	Outcome string // ok, error, VIOLATION:...
	Detail  string
}

var c15World struct {
	once  sync.Once
	docs  []xsel.Cursor
	maps  []*bridge.Map
	adocs []*adoc.Doc
}

func c15Init() {
	c15World.once.Do(func() {
		for _, s := range c15Docs {
			c, err := xsel.ReadXml(strings.NewReader(s))
			if err == nil {
				c15World.docs = append(c15World.docs, c)
			}
		}
		for i := 0; i < 4; i++ {
			g := rng.New(99, fmt.Sprintf("c15doc%d", i))
			d := adoc.Generate(g, adoc.GenOpts{MinNodes: 8, MaxNodes: 30, NS: i % 3, Misc: true, NumericText: i%2 == 0, Lang: true})
			if m, err := bridge.FromStore(d); err == nil {
				c15World.maps = append(c15World.maps, m)
				c15World.adocs = append(c15World.adocs, d)
			}
		}
	})
}

func classify(res any, err error) c15Result {
	if err != nil {
		return c15Result{"error", ""}
	}
	if res == nil {
		return c15Result{"VIOLATION:nil-nil", "the call returned a nil result and a nil error"}
	}
	return c15Result{"ok", ""}
}

// c15Exec runs one case; a panic escaping the API is converted into a violation result.
func c15Exec(c c15Case) (out c15Result) {
	c15Init()
	defer func() {
		if p := recover(); p != nil {
			out = c15Result{"VIOLATION:panic-escaped", fmt.Sprintf("panic escaped the public API: %v", p)}
		}
	}()
	worst := c15Result{"ok", ""}
	note := func(r c15Result) {
		if strings.HasPrefix(r.Outcome, "VIOLATION") || worst.Outcome == "ok" {
			if !strings.HasPrefix(worst.Outcome, "VIOLATION") {
				worst = r
			}
		}
	}
	switch {
	case strings.HasPrefix(c.Kind, "expr/"):
		g, err := xsel.BuildExpr(c.Input)
		if err != nil {
			return c15Result{"error", ""}
		}
		for _, d := range c15World.docs {
			res, err := xsel.Exec(d, &g, xsel.WithNS("p", "urn:a"), xsel.WithVariable("v", xsel.Number(1)))
			note(classify(res, err))
		}
		return worst
	case strings.HasPrefix(c.Kind, "xml/"):
		cur, err := xsel.ReadXml(strings.NewReader(c.Input))
		r := classify(cur, err)
		if cur != nil && fmt.Sprint(cur) == "<nil>" {
			r = c15Result{"VIOLATION:nil-nil", "ReadXml returned a nil cursor and a nil error"}
		}
		if err == nil && cur != nil {
			for _, e := range []string{"count(//node())", "string(/)", "//@*|//namespace::*"} {
				g := xsel.MustBuildExpr(e)
				res, err := xsel.Exec(cur, &g)
				note(classify(res, err))
			}
		}
		note(r)
		return worst
	case strings.HasPrefix(c.Kind, "html/"):
		cur, err := xsel.ReadHtml(strings.NewReader(c.Input))
		if err == nil && cur != nil {
			g := xsel.MustBuildExpr("count(//node()|//@*)")
			res, err := xsel.Exec(cur, &g)
			note(classify(res, err))
		}
		if err == nil && cur == nil {
			return c15Result{"VIOLATION:nil-nil", "ReadHtml returned a nil cursor and a nil error"}
		}
		note(classify(1, err))
		return worst
	case strings.HasPrefix(c.Kind, "json/"):
		cur, err := xsel.ReadJson(strings.NewReader(c.Input))
		if err == nil && cur != nil {
			g := xsel.MustBuildExpr("count(//node())")
			res, err := xsel.Exec(cur, &g)
			note(classify(res, err))
		}
		note(classify(1, err))
		return worst
	case c.Kind == "exec/bindings":
		seed, _ := strconv.Atoi(c.Input)
		g := rng.New(uint64(seed), "c15bind")
		fn := []xsel.Function{
			func(ctx xsel.Context, a ...xsel.Result) (xsel.Result, error) { return nil, nil },
			func(ctx xsel.Context, a ...xsel.Result) (xsel.Result, error) { return nil, fmt.Errorf("user error") },
			func(ctx xsel.Context, a ...xsel.Result) (xsel.Result, error) { panic("user function panics") },
			func(ctx xsel.Context, a ...xsel.Result) (xsel.Result, error) { return xsel.NodeSet{nil}, nil },
			func(ctx xsel.Context, a ...xsel.Result) (xsel.Result, error) { return xsel.NodeSet(nil), nil },
			func(ctx xsel.Context, a ...xsel.Result) (xsel.Result, error) { return xsel.String("ok"), nil },
		}[g.Intn(6)]
		var v xsel.Result
		switch g.Intn(4) {
		case 0:
			v = nil
		case 1:
			v = xsel.NodeSet{nil}
		case 2:
			v = xsel.NodeSet(nil)
		default:
			v = xsel.String("s")
		}
		exprs := []string{"f()", "$v", "//a[f()]", "f(1, $v)", "count(f())", "string(f())", "f() | //a", "//a[. = $v]", "f()/a", "$v/a", "$v[1]", "f()[1]", "-f()", "f() + 1", "f() = $v", "name(f())", "//a/f()", "sum($v)", "p:f()", "concat(f(), $v)"}
		src := rng.Pick(g, exprs)
		gr, err := xsel.BuildExpr(src)
		if err != nil {
			return c15Result{"error", ""}
		}
		opts := []xsel.ContextApply{xsel.WithNS("p", "urn:a"), xsel.WithFunction("f", fn), xsel.WithFunctionNS("urn:a", "f", fn), xsel.WithVariable("v", v)}
		if g.P(10) {
			opts = append(opts, xsel.WithFunction("count", fn), nil)[:len(opts)+1] // shadowing, no nil option
		}
		switch g.Intn(8) {
		case 0:
			// a preset of the embedding program with nothing configured: nil maps assigned directly
			opts = []xsel.ContextApply{func(c *xsel.ContextSettings) { c.NamespaceDecls, c.Variables, c.FunctionLibrary = nil, nil, nil }}
		case 1:
			opts = append(opts, func(c *xsel.ContextSettings) { c.NamespaceDecls = nil })
		case 2:
			opts = append(opts, func(c *xsel.ContextSettings) { c.Variables = nil; c.FunctionLibrary = nil })
		}
		res, err := xsel.Exec(c15World.docs[g.Intn(len(c15World.docs))], &gr, opts...)
		r := classify(res, err)
		r.Detail = strings.TrimSpace(r.Detail + " expr=" + src)
		return r
	case c.Kind == "exec/nil-args":
		k, _ := strconv.Atoi(c.Input)
		gr := xsel.MustBuildExpr("//a[1]/@id")
		var zero xsel.Grammar
		switch k {
		case 0:
			res, err := xsel.Exec(nil, &gr)
			return classify(res, err)
		case 1:
			res, err := xsel.Exec(c15World.docs[0], nil)
			return classify(res, err)
		case 2:
			res, err := xsel.Exec(c15World.docs[0], &zero)
			return classify(res, err)
		case 3:
			res, err := xsel.Exec(nil, nil)
			return classify(res, err)
		case 4:
			_, err := xsel.ExecAsNodeset(nil, &gr)
			return classify(1, err)
		case 5:
			_, err := xsel.ExecAsString(c15World.docs[0], &zero)
			return classify(1, err)
		case 6:
			_, err := xsel.ExecAsNumber(c15World.docs[0], nil)
			return classify(1, err)
		default:
			s := xsel.GetCursorString(c15World.docs[0])
			return classify(s, nil)
		}
	case c.Kind == "unmarshal/targets":
		seed, _ := strconv.Atoi(c.Input)
		g := rng.New(uint64(seed), "c15um")
		type T struct {
			A string `xsel:"@id"`
			B []int  `xsel:"*"`
		}
		var np *T
		var npp **T
		var iface any
		targets := []any{nil, T{}, np, npp, &np, map[string]int{}, &map[string]int{}, [1]int{}, make(chan int), func() {}, &iface, 3, "s", []string{}, &[][]int{}, &T{}, &[]T{}, new(**T), &struct {
			x int `xsel:"1"`
		}{}, &struct {
			M map[int]int `xsel:"*"`
		}{}, &c15Tree{}, &c15List{}, &[]c15Tree{}, &c15Mutual{}, new(c15PtrLoop), &[]*c15List{}}
		results := []xsel.Result{nil, xsel.NodeSet{}, xsel.NodeSet{nil}, xsel.NodeSet{c15World.docs[0]}, xsel.NodeSet{c15World.docs[0].Children()[0]}, xsel.Number(1), xsel.String("x"), xsel.Bool(true), xsel.NodeSet{c15World.docs[0], c15World.docs[1]}}
		t := rng.Pick(g, targets)
		res := rng.Pick(g, results)
		err := xsel.Unmarshal(res, t)
		_ = err
		return c15Result{map[bool]string{true: "ok", false: "error"}[err == nil], ""}
	case c.Kind == "exec/custom-function-positions":
		// a custom function returning a proper node-set (or string, number) in every syntactic position a
		// primary expression or a step can take: these are well-typed queries and must succeed
		seed, _ := strconv.Atoi(c.Input)
		g := rng.New(uint64(seed), "c15fnpos")
		doc := c15World.docs[0]
		kids := func(ctx xsel.Context, a ...xsel.Result) (xsel.Result, error) {
			if len(a) > 0 {
				if ns, ok := a[0].(xsel.NodeSet); ok && len(ns) > 0 {
					return xsel.NodeSet(append([]xsel.Cursor{}, ns[0].Children()...)), nil
				}
			}
			return xsel.NodeSet(append([]xsel.Cursor{}, doc.Children()[0].Children()...)), nil
		}
		str := func(ctx xsel.Context, a ...xsel.Result) (xsel.Result, error) { return xsel.String("2"), nil }
		exprs := []string{"//a | kids(/r)", "kids(/r) | //a", "/r | kids(/r/a) | //b", "//b | p:kids(/r)/b", "/r/a[count(b | kids(/r)) = 5]", "kids() | kids()", "count(kids(/r) | //a)",
			"kids(/r)/b | //a/@id", "kids(/r)[2] | kids(/r)[1]", "(kids(/r) | //b)[last()]", "kids(/r)//text() | /r", "//a[kids(.)]", "kids(/r)/..", "kids(/r)[@id = s()]", "//a[@id = s()] | kids(/r)",
			"-kids(/r)/b", "kids(/r) = s()", "sum(kids(/r)/b | //b)", "string(kids(/r) | /r)", "//a/kids()", "kids(/r)/kids()", "s() | //a"}
		src := rng.Pick(g, exprs)
		gr, err := xsel.BuildExpr(src)
		if err != nil {
			return c15Result{"error", "build"}
		}
		res, err := xsel.Exec(doc, &gr, xsel.WithNS("p", "urn:a"), xsel.WithFunction("kids", kids), xsel.WithFunctionNS("urn:a", "kids", kids), xsel.WithFunction("s", str))
		r := classify(res, err)
		if err != nil && src != "s() | //a" {
			r = c15Result{"VIOLATION:well-typed-query-fails", fmt.Sprintf("%s with a custom function returning a node-set failed with: %s", src, errStr(err))}
		}
		return r
	case c.Kind == "exec/well-typed":
		seed, _ := strconv.Atoi(c.Input)
		g := rng.New(uint64(seed), "c15wt")
		di := g.Intn(len(c15World.maps))
		m, d := c15World.maps[di], c15World.adocs[di]
		elems, attrs, targets := vocab(d)
		cfg := &xast.Cfg{Elems: elems, Attrs: attrs, Prefixes: []string{"p", "q"}, Targets: targets, Axes: xast.Axes, MaxSteps: 3, MaxDepth: 3, PredPct: 30, Abbrev: 40,
			Unions: true, Filters: true, AbsInPred: true, Funcs: xast.AllFuncs, StrLits: []string{"", "a", "1", " 2 ", "é", "en", "abc"}, NumLits: []float64{0, 1, 2, 0.5, 1.5, 100, 1e10, 1e300},
			Vars: []xast.VarSpec{{Local: "n", T: xast.TNum}, {Local: "s", T: xast.TStr}, {Local: "set", T: xast.TNodeSet}}}
		gen := &xast.Gen{R: g, C: cfg}
		e := gen.Expr(xast.Type(g.Intn(4)), 0)
		src := xast.String(e)
		gr, err := xsel.BuildExpr(src)
		if err != nil {
			// syntactic acceptance is C08's business
			return c15Result{"error", "build"}
		}
		nums := []float64{0, -1, 2.5, 1e300, -0.3}
		opts := append(nsOpts(canonNS), xsel.WithVariable("n", xsel.Number(rng.Pick(g, nums))), xsel.WithVariable("s", xsel.String(rng.Pick(g, []string{"", "x", "12", "é😀"}))), xsel.WithVariable("set", xsel.NodeSet(m.Order[:g.Intn(len(m.Order))])))
		start := m.Order[g.Intn(len(m.Order))]
		res, err := xsel.Exec(start, &gr, opts...)
		r := classify(res, err)
		if err != nil && strings.Contains(err.Error(), "xpath query panic") {
			r = c15Result{"VIOLATION:xpath-query-panic", fmt.Sprintf("well-typed query %s failed with: %s", src, errStr(err))}
		}
		return r
	}
	return c15Result{"ok", ""}
}

// ChildC15 runs cases [from, n) of a shard, journaling each before execution.
func ChildC15(seed uint64, shard, from, n int, journal string) int {
	jf, err := os.OpenFile(journal, os.O_CREATE|os.O_WRONLY|os.O_TRUNC, 0o644)
	if err != nil {
		fmt.Println("cannot open journal:", err)
		return 2
	}
	out := bufio.NewWriter(os.Stdout)
	defer out.Flush()
	enc := json.NewEncoder(out)
	stats := map[string]int{}
	// termination monitor: processor time consumed by this process since the current case
	// started (insensitive to machine load); a case over the budget ends the child with
	// status 3 and the parent resumes after it
	var caseCPU atomic.Int64
	var outMu sync.Mutex
	caseCPU.Store(cpuNanos())
	go func() {
		for {
			time.Sleep(250 * time.Millisecond)
			if cpuNanos()-caseCPU.Load() > c15CaseBudget().Nanoseconds() {
				outMu.Lock()
				out.Flush()
				fmt.Fprintln(os.Stderr, "CASE-CPU-BUDGET-EXCEEDED")
				os.Exit(3)
			}
		}
	}()
	for i := from; i < n; i++ {
		caseCPU.Store(cpuNanos())
		g := rng.New(seed, fmt.Sprintf("C15/%d/%d", shard, i))
		c := c15Gen(g)
		jf.Truncate(0)
		jf.Seek(0, 0)
		fmt.Fprintf(jf, "%d\n%s\n%q\n", i, c.Kind, c.Input)
		r := c15Exec(c)
		stats[c.Kind+" -> "+r.Outcome]++
		if strings.HasPrefix(r.Outcome, "VIOLATION") {
			outMu.Lock()
			enc.Encode(map[string]any{"v": true, "i": i, "kind": c.Kind, "input": c.Input, "outcome": r.Outcome, "detail": r.Detail})
			out.Flush()
			outMu.Unlock()
		}
	}
	outMu.Lock()
	defer outMu.Unlock()
	enc.Encode(map[string]any{"stats": stats, "done": true})
	return 0
}

// c15CaseBudget: processor time one case may consume (VERIF_CASE_CPU seconds, default 30).
// On the unchanged tree the slowest generated case takes a few milliseconds.
func c15CaseBudget() time.Duration {
	if v, err := strconv.Atoi(os.Getenv("VERIF_CASE_CPU")); err == nil && v > 0 {
		return time.Duration(v) * time.Second
	}
	return 30 * time.Second
}

func cpuNanos() int64 {
	var ru syscall.Rusage
	if syscall.Getrusage(syscall.RUSAGE_SELF, &ru) != nil {
		return 0
	}
	return ru.Utime.Nano() + ru.Stime.Nano()
}

func c15Run(r *evid.Run, tier string) {
	dir := filepath.Join(evid.VerifDir, "work", "C15")
	os.RemoveAll(dir)
	os.MkdirAll(dir, 0o755)
	defer os.RemoveAll(dir)
	self, _ := os.Executable()
	per := c15PerShard(tier)
	var wg sync.WaitGroup
	for s := 0; s < c15Shards; s++ {
		wg.Add(1)
		go func(s int) {
			defer wg.Done()
			from := 0
			restarts, overBudget := 0, 0
			for from < per && restarts < 40 && overBudget < 3 {
				journal := filepath.Join(dir, fmt.Sprintf("journal-%d", s))
				cmd := exec.Command(self, "child", "c15", strconv.FormatUint(r.Seed, 10), strconv.Itoa(s), strconv.Itoa(from), strconv.Itoa(per), journal)
				var stdout, stderr bytes.Buffer
				cmd.Stdout, cmd.Stderr = &stdout, &stderr
				werr := runWithWatchdog(cmd, 20*time.Minute)
				done := false
				sc := bufio.NewScanner(&stdout)
				sc.Buffer(make([]byte, 1<<24), 1<<24)
				for sc.Scan() {
					var rec map[string]any
					if json.Unmarshal(sc.Bytes(), &rec) != nil {
						continue
					}
					if rec["done"] == true {
						done = true
						if st, ok := rec["stats"].(map[string]any); ok {
							for k, v := range st {
								n := int(v.(float64))
								r.Tab("entry_outcome", k, n)
								r.Eval(n)
								r.Sig(k, !strings.HasSuffix(k, "-> ok"))
							}
						}
						continue
					}
					if rec["v"] == true {
						in := fmt.Sprint(rec["input"])
						if len(in) > 400 {
							in = in[:400] + "…"
						}
						r.Violate(fmt.Sprintf("%v/%v", rec["kind"], rec["outcome"]), map[string]any{"what": fmt.Sprintf("%v on %v input %q: %v", rec["outcome"], rec["kind"], in, rec["detail"]), "shard": s, "index": rec["i"], "kind": rec["kind"], "input": rec["input"]})
					}
				}
				if done {
					return
				}
				// the child died or hung: attribute to the journaled case and resume after it
				jb, _ := os.ReadFile(journal)
				parts := strings.SplitN(string(jb), "\n", 3)
				idx := from
				kind, input := "?", ""
				if len(parts) == 3 {
					idx, _ = strconv.Atoi(parts[0])
					kind = parts[1]
					input, _ = strconv.Unquote(strings.TrimSpace(parts[2]))
				}
				tail := stderr.String()
				if len(tail) > 800 {
					tail = tail[:800] + "…"
				}
				if len(input) > 400 {
					input = input[:400] + "…"
				}
				if werr == errWatchdog {
					// wall-clock watchdog around the whole shard: says nothing about the property
					r.Inconclusive(fmt.Sprintf("shard %d hit the 20 min wall-clock watchdog at %s input %q", s, kind, input))
				} else if strings.Contains(stderr.String(), "CASE-CPU-BUDGET-EXCEEDED") {
					overBudget++
					r.Violate(kind+"/VIOLATION:no-termination", map[string]any{"what": fmt.Sprintf("%s input %q did not return within %v of processor time", kind, input, c15CaseBudget()), "shard": s, "index": idx, "kind": kind, "input": input})
				} else {
					r.Violate(kind+"/VIOLATION:process-abort", map[string]any{"what": fmt.Sprintf("the process died while running %s input %q: %v: %s", kind, input, werr, tail), "shard": s, "index": idx, "kind": kind})
				}
				r.Eval(idx - from + 1)
				from = idx + 1
				restarts++
			}
			if from < per {
				r.Inconclusive(fmt.Sprintf("shard %d stopped after %d restarts (%d cases over the processor-time budget); %d cases not run", s, restarts, overBudget, per-from))
			}
		}(s)
	}
	wg.Wait()
	if tier == "thorough" || os.Getenv("VERIF_FUZZ") != "" {
		c15Fuzz(r, dir)
	}
	r.Sample("pools", 1, map[string]any{"documents": c15Docs, "expressions": c15Exprs[:8]})
}

// c15Fuzz: coverage-guided stage (Go native fuzzing) on BuildExpr+Exec and the three readers,
// bounded by execution counts, in a scratch module so that nothing is written into /verif.
func c15Fuzz(r *evid.Run, dir string) {
	repo := os.Getenv("VERIF_REPO")
	if repo == "" {
		repo = "/repo"
	}
	fdir := filepath.Join(dir, "fuzz")
	os.MkdirAll(fdir, 0o755)
	src, err := os.ReadFile(filepath.Join(evid.VerifDir, "fuzz", "fuzz_test.go.txt"))
	if err != nil {
		// VERIF_OUT runs: the template lives next to the binary's source tree
		src, err = os.ReadFile("fuzz/fuzz_test.go.txt")
	}
	if err != nil {
		r.Inconclusive("fuzz template not found: " + err.Error())
		return
	}
	os.WriteFile(filepath.Join(fdir, "fuzz_test.go"), src, 0o644)
	os.WriteFile(filepath.Join(fdir, "go.mod"), []byte("module c15fuzz\n\ngo 1.22\n\nrequire github.com/ChrisTrenkamp/xsel v0.0.0\n\nreplace github.com/ChrisTrenkamp/xsel => "+repo+"\n"), 0o644)
	if sum, err := os.ReadFile(filepath.Join(repo, "go.sum")); err == nil {
		os.WriteFile(filepath.Join(fdir, "go.sum"), sum, 0o644)
	}
	execs := Scale(400000)
	if os.Getenv("VERIF_FUZZ") != "" {
		if n, err := strconv.Atoi(os.Getenv("VERIF_FUZZ")); err == nil && n > 0 {
			execs = n
		}
	}
	for _, target := range []string{"FuzzExpr", "FuzzXml", "FuzzJson", "FuzzHtml"} {
		cmd := exec.Command("go", "test", "-run=^$", "-fuzz=^"+target+"$", fmt.Sprintf("-fuzztime=%dx", execs), "-test.fuzzcachedir="+filepath.Join(fdir, "cache"), ".")
		cmd.Dir = fdir
		var out bytes.Buffer
		cmd.Stdout, cmd.Stderr = &out, &out
		werr := runWithWatchdog(cmd, 60*time.Minute)
		text := out.String()
		r.Eval(execs)
		r.Tab("fuzz_targets", target, execs)
		r.Sig("fuzz|"+target, true)
		if werr == errWatchdog {
			r.Inconclusive("fuzz target " + target + " hit the watchdog")
			continue
		}
		if werr != nil {
			if !strings.Contains(text, "--- FAIL") && !strings.Contains(text, "panic:") {
				r.Inconclusive("go test -fuzz could not run: " + trunc(text))
				continue
			}
			input := ""
			if files, _ := filepath.Glob(filepath.Join(fdir, "testdata", "fuzz", target, "*")); len(files) > 0 {
				b, _ := os.ReadFile(files[0])
				input = string(b)
			}
			if len(text) > 1500 {
				text = text[:1500] + "…"
			}
			r.Violate("fuzz/"+target, map[string]any{"what": fmt.Sprintf("coverage-guided fuzzing of %s found a failing input: %s", target, trunc(input)), "go_test_output": text, "corpus_entry": input})
		}
	}
}
