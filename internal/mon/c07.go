package mon

import (
	"fmt"
	"math"
	"strings"
	"unicode/utf8"

	"github.com/ChrisTrenkamp/xsel"

	"xselverif/internal/adoc"
	"xselverif/internal/bridge"
	"xselverif/internal/evid"
	"xselverif/internal/refeval"
	"xselverif/internal/rng"
	"xselverif/internal/xast"
)

// C07 — string functions operate on Unicode characters.

func init() {
	Register(&Monitor{
		ID: "C07",
		Rule: "per case ~400 calls of concat, starts-with, contains, substring-before, substring-after, substring (2 and 3 args), string-length, normalize-space, translate with argument strings from {empty, ASCII, 2/3/4-byte scalars, combining sequences, the four XML whitespace characters, NBSP / EM SPACE / U+2028, repeats} passed through variables, positions and lengths from {integers in/out of range, fractions incl. +-0.5 ties, negatives, NaN, +-Infinity}, translate maps with overlaps, duplicates, shorter/longer third argument, multi-byte on either side; zero-argument forms from context nodes; node-set arguments of several nodes (paths, unions, caller-ordered variables), which stand for the string-value of the first node in document order; " +
			"oracle: reference model over []rune (substring by the literal predicate round(p) <= q < round(p)+round(l)); utf8.ValidString of every result; relations concat(substring-before(s,t),t,substring-after(s,t)) = s when contains(s,t), string-length(concat(a,b)) additive, normalize-space idempotent, translate(s,a,a) = s. distinct_nontrivial = distinct (function, argument classes, result)",
		NCases: func(tier string) int { return map[string]int{"quick": 2500, "thorough": 100000}[tier] },
		Case:   c07Case,
	})
}

var c07Atoms = []string{"a", "b", "c", "ab", "abc", "x", "-", "/", "1", "12345", "é", "ü", "ß", "日", "本", "語", "😀", "𝄞", "é", "à́", " ", "  ", "\t", "\n", "\r", "\r\n", " ", " ", " ", "aa", "aaa", "bar", "--", "A", "B", "C",
	"\uFFFD", "\uFEFF", "\u0085", "\u200B", "\u2028", "\uFFFD\uFFFD", "a\uFFFDb", "\U0010FFFF", "\uE000", "\u007F", "\u0001", "\uD7FF", "\uFFFE", "Р", "上", "†", "č", "😊", "\u2009", "\u200A", "\u0120", "\u010A", "\u010D", "\u0109"}

// long atoms: results around and beyond the sizes of typical small-string buffers (64, 256, 1024 bytes)
var c07Long = []string{strings.Repeat("x", 100), strings.Repeat("é", 100), strings.Repeat("ab", 64), strings.Repeat("z", 255), strings.Repeat("日", 90), strings.Repeat("q", 63), strings.Repeat("0123456789", 103), strings.Repeat(" ", 130), strings.Repeat("😀", 70)}

func genStr(g *rng.R) string {
	if g.P(6) {
		var sb strings.Builder
		for i := g.Range(1, 3); i > 0; i-- {
			if g.P(70) {
				sb.WriteString(rng.Pick(g, c07Long))
			} else {
				sb.WriteString(rng.Pick(g, c07Atoms))
			}
		}
		return sb.String()
	}
	switch g.Intn(10) {
	case 0:
		return ""
	case 1:
		return rng.Pick(g, c07Atoms)
	}
	n := g.Range(1, 7)
	var sb strings.Builder
	for i := 0; i < n; i++ {
		if g.P(12) {
			// any Unicode scalar value (no surrogates), uniformly within a randomly chosen plane class
			var c rune
			switch g.Intn(4) {
			case 0:
				c = rune(g.Range(0x80, 0x7FF))
			case 1:
				c = rune(g.Range(0x800, 0xFFFF))
			case 2:
				c = rune(g.Range(0x10000, 0x1FFFF))
			default:
				c = rune(g.Range(0x80, 0x10FFFF))
			}
			if c >= 0xD800 && c <= 0xDFFF {
				c = 0x4E0A
			}
			sb.WriteRune(c)
			continue
		}
		sb.WriteString(rng.Pick(g, c07Atoms))
	}
	return sb.String()
}

func genPos(g *rng.R) float64 {
	switch g.Intn(12) {
	case 0:
		return math.NaN()
	case 1:
		return math.Inf(1)
	case 2:
		return math.Inf(-1)
	case 3:
		return float64(g.Range(-3, 8)) + 0.5
	case 4:
		return float64(g.Range(-3, 8)) - 0.5
	case 5:
		return float64(g.Range(-50, 50))
	case 6:
		return g.F01() * 10
	case 7:
		return rng.Pick(g, []float64{0, -0.0, 1, 1.5, 2.6, -42, 1e10, -1e10, 0.49999999999999994, 2147483648, 1 << 62, 1e300})
	}
	return float64(g.Range(-2, 9))
}

func sclass(s string) string {
	switch {
	case s == "":
		return "empty"
	case len(s) == utf8.RuneCountInString(s):
		if strings.TrimSpace(s) != s || strings.Contains(s, "  ") {
			return "ascii-ws"
		}
		return "ascii"
	}
	return "multibyte"
}

func c07Case(r *evid.Run, tier string, idx int, g *rng.R) {
	o := adoc.GenOpts{MinNodes: 4, MaxNodes: 20, Unicode: true, Misc: true}
	d := adoc.Generate(g, o)
	w, err := newWorld(d)
	if err != nil {
		r.Inconclusive("store tree mismatch: " + err.Error())
		return
	}
	viol := func(class, what string) {
		r.Violate(class, map[string]any{"case": idx, "what": what, "document": d.Dump()})
	}
	// one call of the case binds custom functions under the names of the builtin string functions
	// (an option applies to the call it is given to): every later call of this process, here and
	// in the following cases, must see the builtin ones again
	{
		custom := func(xsel.Context, ...xsel.Result) (xsel.Result, error) { return xsel.String("custom"), nil }
		var shadow []xsel.ContextApply
		for _, fn := range []string{"contains", "normalize-space", "string-length", "concat", "substring", "translate", "starts-with", "substring-before", "substring-after"} {
			shadow = append(shadow, xsel.WithFunction(fn, custom))
		}
		got, _, err := w.libEval(d.Root, "concat(contains('ABC','b'), normalize-space(' x '), string-length('abc'))", shadow...)
		r.Eval(1)
		if err != nil || got != "custom" {
			viol("shadowing", fmt.Sprintf("with custom functions bound under the builtin names, concat(...) gives %s (%v), expected the custom function's value", bridge.Show(got), errStr(err)))
		}
	}
	sv := func(name string) xast.Var { return xast.Var{Local: name} }
	// call evaluates e with the variables bound on both sides and compares.
	call := func(fn string, e xast.Expr, vars map[string]refeval.Value) (refeval.Value, bool) {
		var binds []xsel.ContextApply
		w.env.Vars = map[refeval.Name]refeval.Value{}
		desc := ""
		for k, v := range vars {
			w.env.Vars[refeval.Name{Local: k}] = v
			switch x := v.(type) {
			case string:
				binds = append(binds, xsel.WithVariable(k, xsel.String(x)))
			case float64:
				binds = append(binds, xsel.WithVariable(k, xsel.Number(x)))
			}
		}
		for _, k := range []string{"s", "t", "u", "p", "l"} {
			if v, ok := vars[k]; ok {
				desc += fmt.Sprintf(" $%s=%s", k, bridge.Show(v))
			}
		}
		want, werr := w.modelEval(d.Root, e)
		got, _, gerr := w.libEval(d.Root, xast.String(e), binds...)
		r.Eval(1)
		r.Tab("function", fn, 1)
		if werr != nil {
			r.Broken("model failed on " + xast.String(e) + ": " + werr.Error())
			return nil, false
		}
		if gerr != nil {
			cls := "error/"
			if strings.Contains(gerr.Error(), "xpath query panic") {
				cls = "xpath-query-panic/"
			}
			viol(cls+fn, fmt.Sprintf("%s with%s failed: %s; expected %s", xast.String(e), desc, errStr(gerr), bridge.Show(want)))
			return nil, false
		}
		if s, ok := got.(string); ok && !utf8.ValidString(s) {
			viol("invalid-utf8/"+fn, fmt.Sprintf("%s with%s returned invalid UTF-8 %q; expected %s", xast.String(e), desc, s, bridge.Show(want)))
			return nil, false
		}
		if !bridge.Equal(want, got, false) {
			viol("value/"+fn, fmt.Sprintf("%s with%s gives %s, expected %s", xast.String(e), desc, bridge.Show(got), bridge.Show(want)))
			return nil, false
		}
		return got, true
	}
	libOnly := func(e xast.Expr, vars map[string]string) (refeval.Value, error) {
		var binds []xsel.ContextApply
		for k, v := range vars {
			binds = append(binds, xsel.WithVariable(k, xsel.String(v)))
		}
		got, _, err := w.libEval(d.Root, xast.String(e), binds...)
		r.Eval(1)
		return got, err
	}
	n := 40
	if tier == "thorough" {
		n = 60
	}
	for i := 0; i < n; i++ {
		s, t, u := genStr(g), genStr(g), genStr(g)
		if g.P(50) && len(s) > 0 {
			// t as a piece of s so that searches hit
			rs := []rune(s)
			a := g.Intn(len(rs))
			b := a + g.Intn(len(rs)-a+1)
			t = string(rs[a:b])
		}
		p, l := genPos(g), genPos(g)
		sig := func(fn string, res refeval.Value) {
			r.Sig(fmt.Sprintf("%s|%s|%s|%s", fn, sclass(s), sclass(t), bridge.Show(res)), true)
		}
		st := map[string]refeval.Value{"s": s, "t": t}
		for _, fn := range []string{"starts-with", "contains", "substring-before", "substring-after", "concat"} {
			if v, ok := call(fn, xast.Fn(fn, sv("s"), sv("t")), st); ok {
				sig(fn, v)
			}
		}
		if v, ok := call("concat", xast.Fn("concat", sv("s"), sv("t"), sv("u"), sv("s")), map[string]refeval.Value{"s": s, "t": t, "u": u}); ok {
			sig("concat", v)
		}
		for _, fn := range []string{"string-length", "normalize-space"} {
			if v, ok := call(fn, xast.Fn(fn, sv("s")), map[string]refeval.Value{"s": s}); ok {
				sig(fn, v)
			}
		}
		if v, ok := call("substring", xast.Fn("substring", sv("s"), sv("p")), map[string]refeval.Value{"s": s, "p": p}); ok {
			r.Sig(fmt.Sprintf("substring2|%s|%s|%s", sclass(s), dclass(p), bridge.Show(v)), true)
		}
		if v, ok := call("substring", xast.Fn("substring", sv("s"), sv("p"), sv("l")), map[string]refeval.Value{"s": s, "p": p, "l": l}); ok {
			r.Sig(fmt.Sprintf("substring3|%s|%s|%s|%s", sclass(s), dclass(p), dclass(l), bridge.Show(v)), true)
			r.Sample("substring", 2, map[string]any{"case": idx, "s": s, "p": showDouble(p), "l": showDouble(l), "result": bridge.Show(v)})
		}
		// translate: maps with overlaps / duplicates / different lengths
		from, to := genStr(g), genStr(g)
		if g.P(50) && len(s) > 0 {
			rs := []rune(s)
			rng.Shuffle(g, rs)
			from = string(rs[:g.Range(1, len(rs))]) + from
		}
		if g.P(30) {
			to = from // identity and overlaps
		}
		if g.P(20) {
			rt := []rune(from)
			rng.Shuffle(g, rt)
			to = string(rt) // permutation: sequential replacement differs from simultaneous
		}
		if v, ok := call("translate", xast.Fn("translate", sv("s"), sv("t"), sv("u")), map[string]refeval.Value{"s": s, "t": from, "u": to}); ok {
			sig("translate", v)
			r.Sample("translate", 2, map[string]any{"case": idx, "s": s, "from": from, "to": to, "result": bridge.Show(v)})
		}
		// relations (library only)
		vars := map[string]string{"s": s, "t": t}
		if c, err := libOnly(xast.Fn("contains", sv("s"), sv("t")), vars); err == nil && c == true {
			back, err := libOnly(xast.Fn("concat", xast.Fn("substring-before", sv("s"), sv("t")), sv("t"), xast.Fn("substring-after", sv("s"), sv("t"))), vars)
			r.Count("relation_checks", 1)
			if err != nil || back != s {
				viol("relation/before-after", fmt.Sprintf("concat(substring-before(s,t),t,substring-after(s,t)) = %s (%v) for s=%q t=%q", bridge.Show(back), errStr(err), s, t))
			}
		}
		la, e1 := libOnly(xast.Fn("string-length", sv("s")), vars)
		lb, e2 := libOnly(xast.Fn("string-length", sv("t")), vars)
		lc, e3 := libOnly(xast.Fn("string-length", xast.Fn("concat", sv("s"), sv("t"))), vars)
		r.Count("relation_checks", 1)
		if e1 == nil && e2 == nil && e3 == nil && la.(float64)+lb.(float64) != lc.(float64) {
			viol("relation/length-additive", fmt.Sprintf("string-length(%q)=%v, string-length(%q)=%v, string-length(concat)=%v", s, la, t, lb, lc))
		}
		n1, e1 := libOnly(xast.Fn("normalize-space", sv("s")), vars)
		n2, e2 := libOnly(xast.Fn("normalize-space", xast.Fn("normalize-space", sv("s"))), vars)
		r.Count("relation_checks", 1)
		if e1 != nil || e2 != nil || n1 != n2 {
			viol("relation/normalize-idempotent", fmt.Sprintf("normalize-space(%q)=%s, applied twice %s", s, bridge.Show(n1), bridge.Show(n2)))
		}
		tr, e1 := libOnly(xast.Fn("translate", sv("s"), sv("t"), sv("t")), vars)
		r.Count("relation_checks", 1)
		if e1 != nil || tr != s {
			viol("relation/translate-identity", fmt.Sprintf("translate(%q,%q,%q) = %s (%v)", s, t, t, bridge.Show(tr), errStr(e1)))
		}
	}
	// node-set arguments: every string argument given as a node-set stands for the string-value of
	// its first node in document order — paths, unions, and caller-ordered variables of several nodes
	{
		var pick []*adoc.Node
		for _, x := range d.All {
			if x.Kind != adoc.NS && g.P(40) {
				pick = append(pick, x)
			}
		}
		set := refeval.NodeSet(adoc.SortDoc(pick))
		lib := append(xsel.NodeSet{}, w.m.Lib(set).(xsel.NodeSet)...)
		rng.Shuffle(g, lib)
		w.env.Vars = map[refeval.Name]refeval.Value{{Local: "ns"}: set}
		nsv := xast.Var{Local: "ns"}
		all := xast.Abs(xast.DS(), xast.S("child", xast.NodeT()))
		txt := xast.Abs(xast.DS(), xast.S("child", xast.Test{Kind: xast.TText}))
		attrs := xast.Abs(xast.DS(), xast.Step{Axis: "attribute", Test: xast.AnyT(), Abbrev: true})
		needles := []string{"a", "1", " ", "é", "b", "x", "0"}
		for _, n := range d.All {
			if v := n.StringValue(); v != "" && g.P(30) {
				rs := []rune(v)
				needles = append(needles, string(rs[g.Intn(len(rs)):]), string(rs[:1+g.Intn(len(rs))]))
			}
		}
		for i := 0; i < 24; i++ {
			arg := rng.Pick(g, []xast.Expr{nsv, all, txt, attrs, xast.Binary{Op: "|", L: attrs, R: txt}, xast.Rel(xast.S("descendant", xast.AnyT()))})
			lit := xast.Lit{S: rng.Pick(g, needles)}
			if strings.ContainsAny(lit.S, "'\"") {
				lit.S = "a"
			}
			e := rng.Pick(g, []xast.Expr{
				xast.Fn("contains", arg, lit), xast.Fn("starts-with", arg, lit), xast.Fn("substring-before", arg, lit), xast.Fn("substring-after", arg, lit),
				xast.Fn("contains", lit, arg), xast.Fn("string-length", arg), xast.Fn("normalize-space", arg), xast.Fn("translate", arg, lit, xast.Lit{S: "#"}),
				xast.Fn("concat", arg, lit, arg), xast.Fn("substring", arg, xast.N(2), xast.N(3)), xast.Fn("starts-with", lit, arg),
			})
			if v, ok := w.check(r, "nodeset-argument/"+opOf(e), idx, d.Root, e, false, xsel.WithVariable("ns", lib)); ok {
				r.Tab("function", "node-set argument: "+opOf(e), 1)
				r.Sig("nsarg|"+opOf(e)+"|"+bridge.Show(v), true)
			}
		}
		w.env.Vars = nil
	}
	// zero-argument forms from context nodes
	for _, node := range d.All {
		for _, fn := range []string{"string-length", "normalize-space", "string"} {
			w.env.Vars = nil
			if v, ok := w.check(r, "zero-arg/"+fn, idx, node, xast.Fn(fn), false); ok {
				r.Sig(fmt.Sprintf("zero|%s|%s|%s", fn, node.Kind, bridge.Show(v)), true)
			}
		}
	}
}
