package mon

import (
	"fmt"
	"math"
	"strings"

	"xselverif/internal/adoc"
	"xselverif/internal/bridge"
	"xselverif/internal/refeval"
	"xselverif/internal/refparse"
	"xselverif/internal/xast"
)

const selfDoc1 = `<?xml version="1.0"?><!--top--><doc xmlns:p="urn:p" xml:lang="en"><chapter id="c1"><title>Intro</title><para type="warning">one</para><para>two</para><para type="warning">three</para></chapter><chapter id="c2"><title>Body</title><para>four</para><p:para n="5">five</p:para><?pi data?><!--c--></chapter><appendix xml:lang="de-CH"><para>six</para><olist><item>7</item><item> 8 </item><item>x</item></olist></appendix></doc><?tail t?>`

type selfCase struct {
	ctx  string // expression (from root) selecting the context node; "" = root
	expr string
	want string // rendering: nodes as count:first-string-values, or value
}

func showSelf(v refeval.Value) string {
	switch x := v.(type) {
	case refeval.NodeSet:
		var parts []string
		for _, n := range x {
			switch n.Kind {
			case adoc.Elem:
				parts = append(parts, n.Local+"="+n.StringValue())
			case adoc.Attr:
				parts = append(parts, "@"+n.Local+"="+n.Value)
			case adoc.NS:
				parts = append(parts, "ns:"+n.Local)
			case adoc.Root:
				parts = append(parts, "/")
			default:
				parts = append(parts, n.Kind.String()+"="+n.Value)
			}
		}
		return "[" + strings.Join(parts, "|") + "]"
	case float64:
		if x == 0 && math.Signbit(x) {
			return "-0"
		}
		return refeval.NumberToString(x)
	case string:
		return "'" + x + "'"
	case bool:
		return fmt.Sprint(x)
	}
	return "?"
}

var selfCases = []selfCase{
	// §2.5 abbreviated syntax examples (adapted to the document)
	{"/doc/chapter[1]", "para", "[para=one|para=two|para=three]"},
	{"/doc/chapter[1]", "*", "[title=Intro|para=one|para=two|para=three]"},
	{"/doc/chapter[1]/para[1]", "text()", "[text=one]"},
	{"/doc/chapter[1]", "@id", "[@id=c1]"},
	{"/doc/chapter[1]", "@*", "[@id=c1]"},
	{"/doc/chapter[1]", "para[1]", "[para=one]"},
	{"/doc/chapter[1]", "para[last()]", "[para=three]"},
	{"/doc", "*/para", "[para=one|para=two|para=three|para=four|para=six]"},
	{"", "/doc/chapter[2]/title", "[title=Body]"},
	{"/doc/chapter[1]", "//para[1]", "[para=one|para=four|para=six]"},
	{"", "//olist/item", "[item=7|item= 8 |item=x]"},
	{"/doc/chapter[1]/para[2]", ".", "[para=two]"},
	{"/doc/chapter[1]", ".//para", "[para=one|para=two|para=three]"},
	{"/doc/chapter[1]/para[2]", "..", "[chapter=Introonetwothree]"},
	{"/doc/chapter[1]/para[2]", "../@id", "[@id=c1]"},
	{"/doc/chapter[1]", "para[@type='warning']", "[para=one|para=three]"},
	{"/doc/chapter[1]", "para[@type='warning'][2]", "[para=three]"},
	{"/doc/chapter[1]", "para[2][@type='warning']", "[]"},
	{"/doc", "chapter[title='Intro']", "[chapter=Introonetwothree]"},
	{"/doc", "chapter[title]", "[chapter=Introonetwothree|chapter=Bodyfourfive]"},
	{"/doc/chapter[1]", "para[@type and @id]", "[]"},
	// §2.2 axes, proximity positions
	{"/doc/chapter[1]/para[3]", "preceding-sibling::*[1]", "[para=two]"},
	{"/doc/chapter[1]/para[3]", "preceding-sibling::para[position()=last()]", "[para=one]"},
	{"/doc/chapter[1]/para[1]", "following-sibling::para[1]", "[para=two]"},
	{"/doc/appendix/olist/item[2]", "ancestor::*[1]", "[olist=7 8 x]"},
	{"/doc/appendix/olist/item[2]", "ancestor::node()[last()]", "[/]"},
	{"/doc/appendix/olist/item[2]", "ancestor-or-self::*[1]", "[item= 8 ]"},
	{"/doc/chapter[2]/title", "preceding::para[1]", "[para=three]"},
	{"/doc/chapter[1]/title", "following::title", "[title=Body]"},
	{"/doc/chapter[1]/@id", "following::title", "[title=Intro|title=Body]"},
	{"/doc/chapter[2]/@id", "preceding::title", "[title=Intro]"},
	{"/doc/chapter[1]/@id", "following-sibling::node()", "[]"},
	{"/doc/chapter[1]/@id", "parent::*", "[chapter=Introonetwothree]"},
	{"/doc/chapter[1]/@id", "self::*", "[]"},
	{"/doc/chapter[1]/@id", "self::node()", "[@id=c1]"},
	{"/doc/chapter[1]/@id", "ancestor-or-self::*", "[doc=IntroonetwothreeBodyfourfivesix7 8 x|chapter=Introonetwothree]"},
	{"", "..", "[]"},
	{"", "following-sibling::node() | preceding-sibling::node()", "[]"},
	{"/doc", "preceding-sibling::node()", "[comment=top]"},
	{"/doc", "following-sibling::node()", "[pi=t]"},
	{"/doc", "following::node()", "[pi=t]"},
	{"/processing-instruction()", "preceding::node()", "[comment=top|doc=IntroonetwothreeBodyfourfivesix7 8 x|chapter=Introonetwothree|title=Intro|text=Intro|para=one|text=one|para=two|text=two|para=three|text=three|chapter=Bodyfourfive|title=Body|text=Body|para=four|text=four|para=five|text=five|pi=data|comment=c|appendix=six7 8 x|para=six|text=six|olist=7 8 x|item=7|text=7|item= 8 |text= 8 |item=x|text=x]"},
	{"/doc/chapter[2]", "processing-instruction('pi')", "[pi=data]"},
	{"/doc/chapter[2]", "processing-instruction('nope')", "[]"},
	{"/doc/chapter[2]", "comment()", "[comment=c]"},
	{"/doc/chapter[2]", "p:para", "[para=five]"},
	{"/doc/chapter[2]", "p:*", "[para=five]"},
	{"/doc/chapter[2]", "*:para", "[para=four|para=five]"},
	{"/doc/chapter[2]", "para", "[para=four]"},
	{"/doc", "namespace::*", "[ns:xml|ns:p]"},
	{"/doc/chapter[1]", "count(namespace::node())", "2"},
	{"/doc/chapter[1]/title", "count(//namespace::*)", "32"},
	// filter expressions number in document order; continuation evaluated from the filtered nodes
	{"/doc/appendix/olist/item[3]", "(preceding-sibling::item)[1]", "[item=7]"},
	{"/doc/appendix/olist/item[3]", "preceding-sibling::item[1]", "[item= 8 ]"},
	{"", "(//para)[2]/text()", "[text=two]"},
	{"", "(//chapter)[last()]//*:para", "[para=four|para=five]"},
	{"", "//item[. > 6][/doc/chapter]", "[item=7|item= 8 ]"},
	{"/doc/appendix", "count(//chapter[/doc/appendix])", "2"},
	// §3.4 comparisons
	{"", "//item = 8", "true"},
	{"", "//item != 8", "true"},
	{"", "//item = 'x'", "true"},
	{"", "//item < 7.5", "true"},
	{"", "//item > 8", "false"},
	{"", "//item[3] > 0", "false"},
	{"", "//nothing = //nothing", "false"},
	{"", "//nothing != 1", "false"},
	{"", "//nothing = false()", "true"},
	{"", "'10' < '9'", "false"},
	{"", "'a' < 'b'", "false"},
	{"", "1 = 1 = 1", "true"},
	{"", "2 = 2 = 0", "false"},
	{"", "1 < 2 < 3", "true"},
	{"", "3 > 2 > 1", "false"},
	{"", "true() = 'x'", "true"},
	{"", "0 = ''", "false"},
	{"", "number('NaN') != number('NaN')", "true"},
	// arithmetic
	{"", "7 - 2 - 1", "4"},
	{"", "8 div 2 div 2", "2"},
	{"", "1 or 0 and 0", "true"},
	{"", "- 2 mod 3", "-2"},
	{"", "5 mod 2", "1"},
	{"", "5 mod -2", "1"},
	{"", "-5 mod 2", "-1"},
	{"", "-5 mod -2", "-1"},
	{"", "5.5 mod 2", "1.5"},
	{"", "1 div 0", "Infinity"},
	{"", "-1 div 0", "-Infinity"},
	{"", "0 div 0", "NaN"},
	{"", "1 div -0", "Infinity"}, // '-0' is unary minus on 0 => -0 => -Infinity? see below
	{"", "2*3+4*5", "26"},
	{"", "-(2+3)*2", "-10"},
	{"", "sum(//item[position()<3])", "15"},
	{"", "sum(//item)", "NaN"},
	{"", "floor(-1.5)", "-2"},
	{"", "ceiling(-1.5)", "-1"},
	{"", "round(1.5)", "2"},
	{"", "round(2.5)", "3"},
	{"", "round(-1.5)", "-1"},
	{"", "round(-2.5)", "-2"},
	{"", "round(0.49999999999999994)", "0"},
	{"", "round(-0.2)", "-0"},
	// §4.2 string functions (the recommendation's examples)
	{"", "substring('12345', 2, 3)", "'234'"},
	{"", "substring('12345', 2)", "'2345'"},
	{"", "substring('12345', 1.5, 2.6)", "'234'"},
	{"", "substring('12345', 0, 3)", "'12'"},
	{"", "substring('12345', 0 div 0, 3)", "''"},
	{"", "substring('12345', 1, 0 div 0)", "''"},
	{"", "substring('12345', -42, 1 div 0)", "'12345'"},
	{"", "substring('12345', -1 div 0, 1 div 0)", "''"},
	{"", "substring-before('1999/04/01','/')", "'1999'"},
	{"", "substring-after('1999/04/01','/')", "'04/01'"},
	{"", "substring-after('1999/04/01','19')", "'99/04/01'"},
	{"", "translate('bar','abc','ABC')", "'BAr'"},
	{"", "translate('--aaa--','abc-','ABC')", "'AAA'"},
	{"", "translate('abc','ab','ba')", "'bac'"},
	{"", "translate('aa','aa','xy')", "'xx'"},
	{"", "normalize-space('  a   b \t c\n')", "'a b c'"},
	{"", "string-length('日本語')", "3"},
	{"", "substring('日本語', 2, 1)", "'本'"},
	{"", "concat('a', 1, true())", "'a1true'"},
	{"", "starts-with('abc','ab')", "true"},
	{"", "contains('abc','')", "true"},
	{"", "string(1 div 0)", "'Infinity'"},
	{"", "string(-0)", "'0'"},
	{"", "string(0.1)", "'0.1'"},
	{"", "string(1000000000000000000000)", "'1000000000000000000000'"},
	{"", "string(.0000001)", "'0.0000001'"},
	{"", "number(' 12 ')", "12"},
	{"", "number('1e3')", "NaN"},
	{"", "number('+1')", "NaN"},
	{"", "number('-.5')", "-0.5"},
	{"", "number('5.')", "5"},
	{"", "number('.')", "NaN"},
	{"", "number('- 1')", "NaN"},
	{"", "number('Infinity')", "NaN"},
	{"", "boolean(0 div 0)", "false"},
	{"", "boolean('false')", "true"},
	{"", "boolean(//nothing)", "false"},
	// node functions
	{"/doc/chapter[2]", "name(p:para)", "'{urn:p}para'"},
	{"/doc/chapter[2]", "local-name(p:para)", "'para'"},
	{"/doc/chapter[2]", "namespace-uri(p:para)", "'urn:p'"},
	{"/doc/chapter[2]", "name(processing-instruction())", "'pi'"},
	{"/doc", "name(namespace::*[2])", "'p'"},
	{"/doc/chapter[2]", "name(comment())", "''"},
	{"/doc/chapter[2]", "name(*)", "'title'"},
	{"/doc/chapter[2]", "name(nothing)", "''"},
	{"/doc/chapter[2]/title", "name()", "'title'"},
	{"/doc/chapter[2]/p:para/@n", "name()", "'n'"},
	// lang
	{"/doc/chapter[1]/para[1]", "lang('en')", "true"},
	{"/doc/chapter[1]/para[1]", "lang('EN')", "true"},
	{"/doc/chapter[1]/para[1]", "lang('en-GB')", "false"},
	{"/doc/appendix/para", "lang('de')", "true"},
	{"/doc/appendix/para", "lang('de-ch')", "true"},
	{"/doc/appendix/para", "lang('d')", "false"},
	{"/doc/appendix/para/text()", "lang('de')", "true"},
	{"/doc/appendix/@xml:lang", "lang('de')", "true"},
	{"", "lang('en')", "false"},
	// function call as step (library extension): P/f() = f(P)
	{"", "//item/string()", "'7'"},
	{"", "//chapter/title/string-length()", "5"},
	// position/last at top level
	{"/doc/chapter[2]", "position()", "1"},
	{"/doc/chapter[2]", "last()", "1"},
	// errors
	{"", "count('x')", "ERR"},
	{"", "$nope", "ERR"},
	{"", "q:x", "ERR"},
	{"", "nofn()", "ERR"},
	{"", "1 | 2", "ERR"},
}

var selfReject = []string{"", "a b", "a[", "a]", "(", "1 +", "//", "a//", "/..a", "a::b", "child::", "$", "$a:", "f(,)", "f(1,)", "'abc", "a/[1]", "@", "1..2", "a!b", "a|", "..[1]x", ".[1]", "..[1]", "a : b", "p :x", "p: x", "* : a", "$ a", "child :: a b"}
var selfAccept = []string{"a", " a ", "child :: a", "a [ 1 ]", "f ( 1 , 2 )", "a-1", "a -1", "a - 1", "* * *", "a/* * 2", "div div div", "mod mod mod", "and and and or or", "node/node()", "text", "text()", "comment/text/node", "child::child", "self::self/parent::parent", "p:div", "processing-instruction('a')", "processing-instruction ( )", "a[1][2]", "$v[1]/a", "(a)[1]//b", "f()/a", "a/f()/b", "-a", "--a", "- - 1", "a|b|c", "-a|b", "1.5", ".5", "5.", "a.b", "a.b.c-d", "#obj/#arr", "*:a", "p:*", "@*", "@p:*", "@*:a", "//@a", ".//.", "../..", "/", "/*", "/ *", "a = /", "$p:v", "1<=2", "1 != 2", "a<b", "f(g(h()))", "\"a'b\"", "'a\"b'"}

func selfTestImpl(verbose bool) int {
	fails := 0
	fail := func(format string, a ...any) {
		fails++
		fmt.Printf("SELFTEST FAIL: "+format+"\n", a...)
	}
	d := adoc.MustXML(selfDoc1)
	env := &refeval.Env{Doc: d, NS: map[string]string{"p": "urn:p", "xml": adoc.XMLNS}}
	evalStr := func(ctx *adoc.Node, s string) (refeval.Value, error) {
		ast, err := refparse.Parse(s)
		if err != nil {
			return nil, fmt.Errorf("parse: %v", err)
		}
		// render/re-parse round trip must be stable
		r1 := xast.String(ast)
		ast2, err := refparse.Parse(r1)
		if err != nil {
			return nil, fmt.Errorf("re-parse of rendering %q: %v", r1, err)
		}
		if r2 := xast.String(ast2); r2 != r1 {
			return nil, fmt.Errorf("rendering not stable: %q vs %q", r1, r2)
		}
		return env.Eval(ast2, refeval.Ctx{Node: ctx, Pos: 1, Size: 1})
	}
	for _, c := range selfCases {
		ctx := d.Root
		if c.ctx != "" {
			v, err := evalStr(d.Root, c.ctx)
			ns, ok := v.(refeval.NodeSet)
			if err != nil || !ok || len(ns) != 1 {
				fail("context %q: %v %v", c.ctx, bridge.Show(v), err)
				continue
			}
			ctx = ns[0]
		}
		v, err := evalStr(ctx, c.expr)
		got := ""
		if err != nil {
			got = "ERR"
			if c.want != "ERR" {
				got = "ERR(" + err.Error() + ")"
			}
		} else {
			got = showSelf(v)
		}
		want := c.want
		if c.expr == "1 div -0" {
			want = "-Infinity"
		}
		if got != want {
			fail("ctx=%q expr=%q: got %s want %s", c.ctx, c.expr, got, want)
		}
	}
	for _, s := range selfReject {
		if ast, err := refparse.Parse(s); err == nil {
			fail("recogniser accepts non-expression %q as %s", s, xast.String(ast))
		}
	}
	for _, s := range selfAccept {
		ast, err := refparse.Parse(s)
		if err != nil {
			fail("recogniser rejects %q: %v", s, err)
			continue
		}
		r1 := xast.String(ast)
		ast2, err := refparse.Parse(r1)
		if err != nil {
			fail("re-parse of %q (from %q): %v", r1, s, err)
			continue
		}
		if r2 := xast.String(ast2); r1 != r2 {
			fail("unstable rendering %q -> %q -> %q", s, r1, r2)
		}
		full := xast.Render(ast, xast.RenderOpts{FullParens: true})
		ast3, err := refparse.Parse(full)
		if err != nil {
			fail("re-parse of full-paren rendering %q (from %q): %v", full, s, err)
			continue
		}
		if r3 := xast.String(ast3); stripParens(r3) != stripParens(r1) {
			fail("full-paren rendering changes structure: %q vs %q", r3, r1)
		}
	}
	// conversions
	numStr := map[float64]string{0: "0", math.Copysign(0, -1): "0", 1: "1", -1.5: "-1.5", 1e21: "1000000000000000000000", 1e-7: "0.0000001", math.Inf(1): "Infinity", math.Inf(-1): "-Infinity", pointThree(): "0.30000000000000004"}
	for f, s := range numStr {
		if got := refeval.NumberToString(f); got != s {
			fail("NumberToString(%v)=%q want %q", f, got, s)
		}
		if !refeval.AcceptNumberString(f, s) {
			fail("AcceptNumberString(%v,%q) false", f, s)
		}
	}
	for _, bad := range []string{"1e+21", "1.0", "01", "+1", "1.", ".5", ""} {
		f, _ := map[string]float64{"1e+21": 1e21, "1.0": 1, "01": 1, "+1": 1, "1.": 1, ".5": .5, "": 0}[bad]
		if refeval.AcceptNumberString(f, bad) {
			fail("AcceptNumberString(%v,%q) true", f, bad)
		}
	}
	if verbose || fails > 0 {
		fmt.Printf("selftest: %d cases, %d reject, %d accept, %d failures\n", len(selfCases), len(selfReject), len(selfAccept), fails)
	}
	if fails > 0 {
		return 2
	}
	return 0
}

func stripParens(s string) string {
	return strings.NewReplacer("(", "", ")", "", " ", "").Replace(s)
}

func pointThree() float64 {
	a, b := 0.1, 0.2
	return a + b
}
