package mon

import (
	"bufio"
	"bytes"
	"encoding/base64"
	"fmt"
	"math"
	"os"
	"os/exec"
	"path/filepath"
	"sort"
	"strconv"
	"strings"

	"xselverif/internal/adoc"
	"xselverif/internal/bridge"
	"xselverif/internal/evid"
	"xselverif/internal/refeval"
	"xselverif/internal/rng"
	"xselverif/internal/xast"
)

// RefCheck cross-validates the reference evaluator against the JDK's XPath 1.0
// engine (javax.xml.xpath). It is a model-validation step (DESIGN §3.2), never a
// deciding oracle for xsel: it reports disagreements between the two models,
// minus a fixed list of known JDK deviations.

func locatorOf(n *adoc.Node) string {
	if n.Kind == adoc.Root {
		return "/"
	}
	var parts []string
	for x := n; x.Kind != adoc.Root; x = x.Parent {
		if x.Kind == adoc.Attr {
			parts = append(parts, "@{"+strings.ReplaceAll(x.Space, "/", "%2F")+"}"+x.Local)
			continue
		}
		for i, c := range x.Parent.Children {
			if c == x {
				parts = append(parts, strconv.Itoa(i))
			}
		}
	}
	for i, j := 0, len(parts)-1; i < j; i, j = i+1, j-1 {
		parts[i], parts[j] = parts[j], parts[i]
	}
	return "/" + strings.Join(parts, "/")
}

func b64(s string) string { return base64.StdEncoding.EncodeToString([]byte(s)) }

type refCase struct {
	doc   *adoc.Doc
	ctx   *adoc.Node
	expr  xast.Expr
	src   string
	typ   byte
	model refeval.Value
}

// RefCheck returns the process exit code (0 agree, 1 disagreements, 2 cannot run).
func RefCheck(seed uint64, ndocs int, verbose bool) int {
	classDir := filepath.Join(evid.VerifDir, "work", "java")
	if _, err := os.Stat(filepath.Join(classDir, "RefCheck.class")); err != nil {
		os.MkdirAll(classDir, 0o755)
		cmd := exec.Command("javac", "-encoding", "UTF-8", "-d", classDir, filepath.Join(evid.VerifDir, "java", "RefCheck.java"))
		if out, err := cmd.CombinedOutput(); err != nil {
			fmt.Printf("refcheck: cannot compile RefCheck.java (%v): %s\n", err, out)
			return 2
		}
	}
	var input bytes.Buffer
	var cases []refCase
	funcs := map[string]bool{}
	for k := range xast.AllFuncs {
		funcs[k] = true
	}
	delete(funcs, "name") // the library's {uri}local notation is its own
	axes := []string{"ancestor", "ancestor-or-self", "attribute", "child", "child", "descendant", "descendant-or-self", "following", "following-sibling", "parent", "preceding", "preceding-sibling", "self"}
	for di := 0; di < ndocs; di++ {
		g := rng.New(seed, fmt.Sprintf("refcheck/%d", di))
		d := adoc.Generate(g, adoc.GenOpts{MinNodes: 5, MaxNodes: 35, NS: g.Intn(3), Misc: true, Lang: g.P(40), NumericText: g.P(50), XMLSafe: true, NoAdjText: true})
		// the JDK's DOM-backed engine mishandles comments/PIs outside the document element
		// (preceding::/following:: from and to them): keep only the document element at top level
		var topKeep []*adoc.Node
		for _, c := range d.Root.Children {
			if c.Kind == adoc.Elem {
				topKeep = append(topKeep, c)
			}
		}
		d.Root.Children = topKeep
		for _, n := range d.All {
			n.Local = strings.ReplaceAll(n.Local, "#", "h")
		}
		d.NormalizeNS(g)
		d.Finish()
		fmt.Fprintf(&input, "DOC %s\n", b64(d.ToXML(adoc.XMLOpts{})))
		for p, u := range canonNS {
			fmt.Fprintf(&input, "NS %s %s\n", p, b64(u))
		}
		elems, attrs, targets := vocab(d)
		cfg := &xast.Cfg{Elems: elems, Attrs: attrs, Prefixes: []string{"p", "q", "r"}, Targets: targets, Axes: axes, MaxSteps: 3, MaxDepth: 3, PredPct: 35, Abbrev: 50,
			Unions: true, Filters: true, AbsInPred: true, Funcs: funcs, IntPredsOnly: true, StrLits: []string{"", "a", "1", " 2 ", "en", "x y", "abc"}, NumLits: []float64{0, 1, 2, 3, 10, 0.5, 2.5}}
		gen := &xast.Gen{R: g, C: cfg}
		env := &refeval.Env{Doc: d, NS: canonNS}
		for k := 0; k < 40; k++ {
			e := gen.Expr(xast.Type(g.Intn(4)), 0)
			ctx := d.Root
			if g.P(40) {
				ctx = rng.Pick(g, d.All)
				for ctx.Kind == adoc.NS {
					ctx = rng.Pick(g, d.All)
				}
			}
			if !jdkComparable(e) {
				continue
			}
			v, err := env.Eval(e, refeval.Ctx{Node: ctx, Pos: 1, Size: 1})
			if err != nil {
				continue
			}
			typ := byte('X')
			switch v.(type) {
			case float64:
				typ = 'N'
			case string:
				typ = 'S'
			case bool:
				typ = 'B'
			}
			src := xast.String(e)
			fmt.Fprintf(&input, "EXPR %c %s %s\n", typ, locatorOf(ctx), b64(src))
			cases = append(cases, refCase{d, ctx, e, src, typ, v})
		}
	}
	cmd := exec.Command("java", "-cp", classDir, "RefCheck")
	cmd.Stdin = &input
	var out, errb bytes.Buffer
	cmd.Stdout, cmd.Stderr = &out, &errb
	if err := cmd.Run(); err != nil {
		fmt.Printf("refcheck: java failed (%v): %s\n", err, trunc(errb.String()))
		return 2
	}
	sc := bufio.NewScanner(&out)
	sc.Buffer(make([]byte, 1<<24), 1<<24)
	i, agree, jerr := 0, 0, 0
	classes := map[string]int{}
	var samples []string
	for sc.Scan() {
		if i >= len(cases) {
			break
		}
		c := cases[i]
		i++
		parts := strings.SplitN(sc.Text(), " ", 2)
		val := ""
		if len(parts) == 2 {
			b, _ := base64.StdEncoding.DecodeString(parts[1])
			val = string(b)
		}
		if parts[0] == "ERR" {
			jerr++
			classes["jdk-error"]++
			if len(samples) < 40 && verbose {
				samples = append(samples, fmt.Sprintf("JDK error on %s: %s", c.src, trunc(val)))
			}
			continue
		}
		same := false
		want := ""
		switch v := c.model.(type) {
		case float64:
			want = showDouble(v)
			f, err := strconv.ParseFloat(val, 64)
			if val == "NaN" {
				f = math.NaN()
			}
			same = err == nil || val == "NaN"
			same = same && refeval.SameNumber(f, v, false)
		case string:
			want = v
			same = val == v
		case bool:
			want = fmt.Sprint(v)
			same = val == want
		case refeval.NodeSet:
			var ls []string
			for _, n := range v {
				ls = append(ls, locatorOf(n))
			}
			got := strings.Fields(val)
			sort.Strings(ls)
			sort.Strings(got)
			want = strings.Join(ls, " ")
			same = want == strings.Join(got, " ")
		}
		if same {
			agree++
			continue
		}
		cls := refDeviationClass(c)
		classes[cls]++
		if cls == "UNEXPLAINED" && len(samples) < 40 {
			samples = append(samples, fmt.Sprintf("%s from %s: reference %q, JDK %q\n      document: %s", c.src, c.ctx.Path(), trunc(want), trunc(val), trunc(c.doc.Dump())))
		}
	}
	fmt.Printf("refcheck seed=%d: %d expressions over %d documents, %d agree, JDK errors %d, disagreement classes %v\n", seed, len(cases), ndocs, agree, jerr, classes)
	for _, s := range samples {
		fmt.Println("  ", s)
	}
	// Residual disagreements (attribute order in the DOM, xmlns="" on the document element, …) are
	// listed for manual triage; the cross-check fails when they exceed 0.1 % of the expressions.
	if classes["UNEXPLAINED"]*1000 > len(cases) {
		return 1
	}
	return 0
}

// jdkComparable filters out what the JDK engine cannot be asked: the library's
// *:local extension, and three JDK parser/evaluator deviations found by triage
// (double unary minus and the empty string literal are rejected; position() and
// last() outside a predicate evaluate to -1 and 0).
func jdkComparable(e xast.Expr) bool {
	ok := true
	var walk func(e xast.Expr, inPred bool)
	walk = func(e xast.Expr, inPred bool) {
		switch v := e.(type) {
		case nil:
		case xast.Binary:
			walk(v.L, inPred)
			walk(v.R, inPred)
		case xast.Neg:
			if _, dbl := v.X.(xast.Neg); dbl {
				ok = false
			}
			walk(v.X, inPred)
		case xast.Paren:
			walk(v.X, inPred)
		case xast.Lit:
			if v.S == "" {
				ok = false
			}
		case xast.Call:
			if (v.Local == "position" || v.Local == "last") && !inPred {
				ok = false
			}
			for _, a := range v.Args {
				walk(a, inPred)
			}
		case xast.Path:
			walk(v.Head, inPred)
			for _, q := range v.HPred {
				walk(q, true)
			}
			if len(v.HPred) > 1 {
				ok = false // the JDK does not renumber between successive predicates of a filter expression
			}
			for _, st := range v.Steps {
				if st.Fn != nil || st.Test.Kind == xast.TLocalAny {
					ok = false
				}
				if len(st.Preds) > 1 {
					ok = false // nor between successive predicates of a step when a later one is positional
				}
				if st.Axis == "attribute" && len(st.Preds) > 0 {
					ok = false // attribute order is implementation-dependent (DOM NamedNodeMap vs source order)
				}
				for _, q := range st.Preds {
					walk(q, true)
				}
			}
		}
	}
	walk(e, false)
	return ok
}

// refDeviationClass names known deviations of the JDK engine from the
// recommendation (triaged by hand against the text of XPath 1.0); anything
// else is UNEXPLAINED and fails the cross-check.
func refDeviationClass(c refCase) string {
	src := c.src
	switch {
	case strings.Contains(src, "round("):
		return "jdk-round-ties" // Math.round-style handling of negative ties / -0
	case strings.Contains(src, "lang("):
		return "jdk-lang"
	case strings.Contains(src, "substring("):
		return "jdk-substring-nan-inf" // NaN/infinite positions: the JDK returns the whole string where §4.2 gives ''
	}
	return "UNEXPLAINED"
}

var _ = bridge.Show
