package mon

import (
	"bytes"
	"fmt"
	"hash/fnv"
	"io"
	"sort"
	"strings"

	"github.com/ChrisTrenkamp/xsel"

	"xselverif/internal/adoc"
	"xselverif/internal/bridge"
	"xselverif/internal/evid"
	"xselverif/internal/refeval"
	"xselverif/internal/rng"
	"xselverif/internal/xast"
)

// Canonical query-side namespace bindings for generated documents.
var canonNS = map[string]string{"p": "urn:a", "q": "urn:b", "r": "http://x.y/z", "xml": adoc.XMLNS}

func prefixFor(uri string) string {
	for p, u := range canonNS {
		if u == uri {
			return p
		}
	}
	return ""
}

func nsOpts(ns map[string]string) []xsel.ContextApply {
	var out []xsel.ContextApply
	keys := make([]string, 0, len(ns))
	for k := range ns {
		keys = append(keys, k)
	}
	sort.Strings(keys)
	for _, k := range keys {
		out = append(out, xsel.WithNS(k, ns[k]))
	}
	return out
}

// vocab lists the names occurring in a document under the canonical bindings.
func vocab(d *adoc.Doc) (elems, attrs []xast.QN, targets []string) {
	se, sa, st := map[xast.QN]bool{}, map[xast.QN]bool{}, map[string]bool{}
	for _, n := range d.All {
		switch n.Kind {
		case adoc.Elem:
			q := xast.QN{Prefix: prefixFor(n.Space), Local: n.Local}
			if n.Space != "" && q.Prefix == "" {
				continue
			}
			if !se[q] {
				se[q] = true
				elems = append(elems, q)
			}
		case adoc.Attr:
			q := xast.QN{Prefix: prefixFor(n.Space), Local: n.Local}
			if n.Space != "" && q.Prefix == "" {
				continue
			}
			if !sa[q] {
				sa[q] = true
				attrs = append(attrs, q)
			}
		case adoc.PI:
			if !st[n.Local] {
				st[n.Local] = true
				targets = append(targets, n.Local)
			}
		}
	}
	return
}

// world = one abstract document realised through the store (R-store) with
// the canonical bindings.
type world struct {
	d    *adoc.Doc
	m    *bridge.Map
	env  *refeval.Env
	opts []xsel.ContextApply
	ref  bool // realised through R-ref
}

func newWorld(d *adoc.Doc) (*world, error) {
	m, err := bridge.FromStore(d)
	if err != nil {
		return nil, err
	}
	return &world{d: d, m: m, env: &refeval.Env{Doc: d, NS: canonNS}, opts: nsOpts(canonNS)}, nil
}

// newRefWorld realises the document through the independent Cursor
// implementation (R-ref) instead of the library's store.
func newRefWorld(d *adoc.Doc) (*world, error) {
	m, err := bridge.FromRef(d)
	if err != nil {
		return nil, err
	}
	return &world{d: d, m: m, env: &refeval.Env{Doc: d, NS: canonNS}, opts: nsOpts(canonNS), ref: true}, nil
}

// newXMLWorld realises the document by serialising it and reading it back
// with xsel.ReadXml (R-xml).  The document must have been generated with
// XMLSafe and NoAdjText; names are made XML names and the namespace
// declarations normalised in place.
func newXMLWorld(d *adoc.Doc, g *rng.R) (*world, error) {
	for _, n := range d.All {
		n.Local = strings.ReplaceAll(n.Local, "#", "h")
	}
	d.NormalizeNS(g)
	d.Finish()
	root, err := xsel.ReadXml(strings.NewReader(d.ToXML(adoc.XMLOpts{})))
	if err != nil {
		return nil, fmt.Errorf("ReadXml: %v", err)
	}
	m, err := bridge.Build(root, d)
	if err != nil {
		return nil, err
	}
	return &world{d: d, m: m, env: &refeval.Env{Doc: d, NS: canonNS}, opts: nsOpts(canonNS)}, nil
}

// hostileReader delivers b in a way chosen by mode: 0 whole (one Read), 1 chunks
// of PRNG-free pseudo-random sizes 1..23 derived from the content, 2 one byte
// per Read, 3 a Read ends right after every closing '}', ']' or '>'.
func hostileReader(b []byte, mode int) (io.Reader, string) {
	switch mode % 4 {
	case 1:
		h := fnv.New32a()
		h.Write(b)
		return &chunkReader{b: b, state: h.Sum32() | 1}, "pseudo-random chunks"
	case 2:
		return &chunkReader{b: b, one: true}, "one byte per Read"
	case 3:
		return &chunkReader{b: b, closers: true}, "Read ends after each closer"
	}
	return bytes.NewReader(b), "whole"
}

func contentMode(b []byte) int {
	h := fnv.New32a()
	h.Write(b)
	return int(h.Sum32()>>3) % 4
}

type chunkReader struct {
	b       []byte
	state   uint32
	one     bool
	closers bool
}

func (c *chunkReader) Read(p []byte) (int, error) {
	if len(c.b) == 0 {
		return 0, io.EOF
	}
	n := 1
	switch {
	case c.one:
	case c.closers:
		n = len(c.b)
		for i, x := range c.b {
			if x == '}' || x == ']' || x == '>' {
				n = i + 1
				break
			}
		}
	default:
		c.state = c.state*1664525 + 1013904223
		n = 1 + int(c.state>>16)%23
	}
	if n > len(p) {
		n = len(p)
	}
	if n > len(c.b) {
		n = len(c.b)
	}
	copy(p, c.b[:n])
	c.b = c.b[n:]
	return n, nil
}

// libEval executes expr from node n through the public API and converts the result.
func (w *world) libEval(n *adoc.Node, expr string, extra ...xsel.ContextApply) (refeval.Value, xsel.Result, error) {
	opts := w.opts
	if len(extra) > 0 {
		opts = append(append([]xsel.ContextApply{}, w.opts...), extra...)
	}
	res, err := ExecStr(w.m.ToC[n], expr, opts...)
	if err != nil {
		return nil, nil, err
	}
	v, err := w.m.Value(res)
	if err != nil {
		return nil, res, err
	}
	return v, res, nil
}

func (w *world) modelEval(n *adoc.Node, e xast.Expr) (refeval.Value, error) {
	return w.env.Eval(e, refeval.Ctx{Node: n, Pos: 1, Size: 1})
}

// check compares library and model for one (context node, expression); it
// reports a violation of class `class` on disagreement and returns the
// library value (nil when the library failed).
func (w *world) check(r *evid.Run, class string, caseIdx int, n *adoc.Node, e xast.Expr, signZero bool, extra ...xsel.ContextApply) (refeval.Value, bool) {
	return w.checkStr(r, class, caseIdx, n, e, spell(e), signZero, extra...)
}

// spell renders e minimally, except that one expression in five (chosen by a
// hash of its minimal spelling, so that the same expression is always spelled
// the same way) gets ExprWhitespace — blanks, tabs, CR, LF — at token
// boundaries, which XPath 1.0 section 3.7 allows everywhere between tokens.
func spell(e xast.Expr) string {
	s := xast.String(e)
	h := fnv.New32a()
	h.Write([]byte(s))
	st := h.Sum32()
	if st%5 != 0 {
		return s
	}
	return xast.Render(e, xast.RenderOpts{WS: func(slot int) string {
		st = st*1664525 + 1013904223
		switch (st >> 16) % 12 {
		case 0:
			return " "
		case 1:
			return "\t"
		case 2:
			return "\n"
		case 3:
			return "\r\n"
		case 4:
			return " \n\t"
		}
		return ""
	}})
}

func (w *world) checkStr(r *evid.Run, class string, caseIdx int, n *adoc.Node, e xast.Expr, s string, signZero bool, extra ...xsel.ContextApply) (refeval.Value, bool) {
	want, werr := w.modelEval(n, e)
	got, _, gerr := w.libEval(n, s, extra...)
	r.Eval(1)
	ok := true
	what := ""
	switch {
	case werr != nil && gerr != nil:
	case werr != nil:
		ok, what = false, fmt.Sprintf("library returned %s where an error is required (%v)", bridge.Show(got), werr)
	case gerr != nil:
		ok, what = false, fmt.Sprintf("library failed: %s; expected %s", errStr(gerr), bridge.Show(want))
	case !bridge.Equal(want, got, signZero):
		ok, what = false, fmt.Sprintf("library %s; expected %s", bridge.Show(got), bridge.Show(want))
	}
	if !ok {
		r.Violate(class, map[string]any{
			"case": caseIdx, "what": fmt.Sprintf("%s from %s: %s", s, n.Path(), what),
			"expr": s, "context": n.Path(), "document": w.d.Dump(),
		})
		return nil, false
	}
	if gerr != nil {
		return nil, true
	}
	return got, true
}

func nontrivialSet(v refeval.Value, total int) bool {
	ns, ok := v.(refeval.NodeSet)
	return ok && len(ns) > 0 && len(ns) < total
}
