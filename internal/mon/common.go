package mon

import (
	"bytes"
	"fmt"
	"hash/fnv"
	"io"
	"math"
	"sort"
	"strings"

	"github.com/ChrisTrenkamp/xsel"
	"github.com/ChrisTrenkamp/xsel/node"
	"github.com/ChrisTrenkamp/xsel/parser"
	"github.com/ChrisTrenkamp/xsel/store"

	"xselverif/internal/adoc"
	"xselverif/internal/bridge"
	"xselverif/internal/evid"
	"xselverif/internal/refeval"
	"xselverif/internal/rng"
	"xselverif/internal/xast"
)

// Canonical query-side namespace bindings for generated documents.
var canonNS = map[string]string{"p": "urn:a", "q": "urn:b", "r": "http://x.y/z", "xml": adoc.XMLNS}

func prefixFor(uri string) string {
	for p, u := range canonNS {
		if u == uri {
			return p
		}
	}
	return ""
}

func nsOpts(ns map[string]string) []xsel.ContextApply {
	var out []xsel.ContextApply
	keys := make([]string, 0, len(ns))
	for k := range ns {
		keys = append(keys, k)
	}
	sort.Strings(keys)
	for _, k := range keys {
		out = append(out, xsel.WithNS(k, ns[k]))
	}
	return out
}

// vocab lists the names occurring in a document under the canonical bindings.
func vocab(d *adoc.Doc) (elems, attrs []xast.QN, targets []string) {
	se, sa, st := map[xast.QN]bool{}, map[xast.QN]bool{}, map[string]bool{}
	for _, n := range d.All {
		switch n.Kind {
		case adoc.Elem:
			q := xast.QN{Prefix: prefixFor(n.Space), Local: n.Local}
			if n.Space != "" && q.Prefix == "" {
				continue
			}
			if !se[q] {
				se[q] = true
				elems = append(elems, q)
			}
		case adoc.Attr:
			q := xast.QN{Prefix: prefixFor(n.Space), Local: n.Local}
			if n.Space != "" && q.Prefix == "" {
				continue
			}
			if !sa[q] {
				sa[q] = true
				attrs = append(attrs, q)
			}
		case adoc.PI:
			if !st[n.Local] {
				st[n.Local] = true
				targets = append(targets, n.Local)
			}
		}
	}
	return
}

// world = one abstract document realised through the store (R-store) with
// the canonical bindings.
type world struct {
	d    *adoc.Doc
	m    *bridge.Map
	env  *refeval.Env
	opts []xsel.ContextApply
	ref  bool // realised through R-ref
	lazy bool // R-ref queried through the view that allocates a cursor value per access (identity is Pos())
}

func newWorld(d *adoc.Doc) (*world, error) {
	m, err := bridge.FromStore(d)
	if err != nil {
		return nil, err
	}
	return &world{d: d, m: m, env: &refeval.Env{Doc: d, NS: canonNS}, opts: nsOpts(canonNS)}, nil
}

// newRefWorld realises the document through the independent Cursor
// implementation (R-ref) instead of the library's store.
func newRefWorld(d *adoc.Doc) (*world, error) {
	m, err := bridge.FromRef(d)
	if err != nil {
		return nil, err
	}
	return &world{d: d, m: m, env: &refeval.Env{Doc: d, NS: canonNS}, opts: nsOpts(canonNS), ref: true}, nil
}

// newXMLWorld realises the document by serialising it and reading it back
// with xsel.ReadXml (R-xml).  The document must have been generated with
// XMLSafe and NoAdjText; names are made XML names and the namespace
// declarations normalised in place.
func newXMLWorld(d *adoc.Doc, g *rng.R) (*world, error) {
	for _, n := range d.All {
		n.Local = strings.ReplaceAll(n.Local, "#", "h")
	}
	d.NormalizeNS(g)
	d.Finish()
	root, err := xsel.ReadXml(strings.NewReader(d.ToXML(adoc.XMLOpts{})))
	if err != nil {
		return nil, fmt.Errorf("ReadXml: %v", err)
	}
	m, err := bridge.Build(root, d)
	if err != nil {
		return nil, err
	}
	return &world{d: d, m: m, env: &refeval.Env{Doc: d, NS: canonNS}, opts: nsOpts(canonNS)}, nil
}

// hostileReader delivers b in a way chosen by mode: 0 whole (one Read), 1 chunks
// of PRNG-free pseudo-random sizes 1..23 derived from the content, 2 one byte
// per Read, 3 a Read ends right after every closing '}', ']' or '>'.
func hostileReader(b []byte, mode int) (io.Reader, string) {
	switch mode % 5 {
	case 4:
		// a seekable reader the caller has already advanced past a header of its own
		header := []byte("HEADER {\"not\": [\"for\", \"the\", \"parser\"]} <skipped attr='x'>\n")
		rd := bytes.NewReader(append(append([]byte{}, header...), b...))
		rd.Seek(int64(len(header)), io.SeekStart)
		return rd, "seekable reader positioned after a header"
	case 1:
		h := fnv.New32a()
		h.Write(b)
		return &chunkReader{b: b, state: h.Sum32() | 1}, "pseudo-random chunks"
	case 2:
		return &chunkReader{b: b, one: true}, "one byte per Read"
	case 3:
		return &chunkReader{b: b, closers: true}, "Read ends after each closer"
	}
	return bytes.NewReader(b), "whole"
}

func contentMode(b []byte) int {
	h := fnv.New32a()
	h.Write(b)
	return int(h.Sum32()>>3) % 5
}

type chunkReader struct {
	b       []byte
	state   uint32
	one     bool
	closers bool
}

func (c *chunkReader) Read(p []byte) (int, error) {
	if len(c.b) == 0 {
		return 0, io.EOF
	}
	n := 1
	switch {
	case c.one:
	case c.closers:
		n = len(c.b)
		for i, x := range c.b {
			if x == '}' || x == ']' || x == '>' {
				n = i + 1
				break
			}
		}
	default:
		c.state = c.state*1664525 + 1013904223
		n = 1 + int(c.state>>16)%23
	}
	if n > len(p) {
		n = len(p)
	}
	if n > len(c.b) {
		n = len(c.b)
	}
	copy(p, c.b[:n])
	c.b = c.b[n:]
	return n, nil
}

// libEval executes expr from node n through the public API and converts the result.
func (w *world) libEval(n *adoc.Node, expr string, extra ...xsel.ContextApply) (refeval.Value, xsel.Result, error) {
	opts := w.opts
	if len(extra) > 0 {
		opts = append(append([]xsel.ContextApply{}, w.opts...), extra...)
	}
	start := w.m.ToC[n]
	if w.lazy {
		start = bridge.LazyOf(start)
	}
	res, err := ExecStr(start, expr, opts...)
	if err != nil {
		return nil, nil, err
	}
	v, err := w.m.Value(res)
	if err != nil {
		return nil, res, err
	}
	return v, res, nil
}

func (w *world) modelEval(n *adoc.Node, e xast.Expr) (refeval.Value, error) {
	return w.env.Eval(e, refeval.Ctx{Node: n, Pos: 1, Size: 1})
}

// check compares library and model for one (context node, expression); it
// reports a violation of class `class` on disagreement and returns the
// library value (nil when the library failed).
func (w *world) check(r *evid.Run, class string, caseIdx int, n *adoc.Node, e xast.Expr, signZero bool, extra ...xsel.ContextApply) (refeval.Value, bool) {
	return w.checkStr(r, class, caseIdx, n, e, spell(e), signZero, extra...)
}

// spell renders e minimally, except that one expression in five (chosen by a
// hash of its minimal spelling, so that the same expression is always spelled
// the same way) gets ExprWhitespace — blanks, tabs, CR, LF — at token
// boundaries, which XPath 1.0 section 3.7 allows everywhere between tokens.
func spell(e xast.Expr) string {
	s := xast.String(e)
	h := fnv.New32a()
	h.Write([]byte(s))
	st := h.Sum32()
	if st%5 != 0 {
		return s
	}
	return xast.Render(e, xast.RenderOpts{WS: func(slot int) string {
		st = st*1664525 + 1013904223
		switch (st >> 16) % 12 {
		case 0:
			return " "
		case 1:
			return "\t"
		case 2:
			return "\n"
		case 3:
			return "\r\n"
		case 4:
			return " \n\t"
		}
		return ""
	}})
}

func (w *world) checkStr(r *evid.Run, class string, caseIdx int, n *adoc.Node, e xast.Expr, s string, signZero bool, extra ...xsel.ContextApply) (refeval.Value, bool) {
	want, werr := w.modelEval(n, e)
	got, _, gerr := w.libEval(n, s, extra...)
	r.Eval(1)
	ok := true
	what := ""
	switch {
	case werr != nil && gerr != nil:
	case werr != nil:
		ok, what = false, fmt.Sprintf("library returned %s where an error is required (%v)", bridge.Show(got), werr)
	case gerr != nil:
		ok, what = false, fmt.Sprintf("library failed: %s; expected %s", errStr(gerr), bridge.Show(want))
	case !bridge.Equal(want, got, signZero):
		ok, what = false, fmt.Sprintf("library %s; expected %s", bridge.Show(got), bridge.Show(want))
	}
	if !ok {
		r.Violate(class, map[string]any{
			"case": caseIdx, "what": fmt.Sprintf("%s from %s: %s", s, n.Path(), what),
			"expr": s, "context": n.Path(), "document": w.d.Dump(),
		})
		return nil, false
	}
	if gerr != nil {
		return nil, true
	}
	return got, true
}

func nontrivialSet(v refeval.Value, total int) bool {
	ns, ok := v.(refeval.NodeSet)
	return ok && len(ns) > 0 && len(ns) < total
}

// foreignSection: nodes of a second tree enter one query on the first — bound to $o and returned by
// the custom function o() — as an embedding program does when it joins two documents. The query is
// concat(EA,'|',EB) and concat(EB,'|',EA), where EA looks only at the queried tree and EB only at
// $o / o(); the expected value is therefore model(EA on tree A) + '|' + model(EB on tree B), and
// for mixed comparisons 'pathA op $o' the existential rule over the two sets of string-values.
// Positions of the two trees coincide, so anything keyed by Pos() within one Exec shows here.
func foreignSection(r *evid.Run, class string, idx int, g *rng.R, w *world, o adoc.GenOpts, mkEA func(g *rng.R, w *world) xast.Expr, mkEB func(g *rng.R, wB *world, ov xast.Expr) xast.Expr) {
	dB := adoc.Generate(g, o)
	wB, err := newWorld(dB)
	if err != nil {
		return
	}
	var pick []*adoc.Node
	switch g.Intn(4) {
	case 0:
		pick = []*adoc.Node{dB.Root}
	case 1:
		pick = []*adoc.Node{rng.Pick(g, dB.Elements())}
	default:
		for _, n := range dB.All {
			if n.Kind != adoc.NS && g.P(30) {
				pick = append(pick, n)
			}
		}
	}
	set := refeval.NodeSet(adoc.SortDoc(pick))
	lib := append(xsel.NodeSet{}, wB.m.Lib(set).(xsel.NodeSet)...)
	if g.Bool() {
		rng.Shuffle(g, lib)
	}
	wB.env.Vars = map[refeval.Name]refeval.Value{{Local: "o"}: set}
	wB.env.Funcs = map[refeval.Name]refeval.Func{{Local: "o"}: func(refeval.Ctx, refeval.NodeSet, []refeval.Value) (refeval.Value, error) { return set, nil }}
	binds := append(append([]xsel.ContextApply{}, w.opts...), xsel.WithVariable("o", lib), xsel.WithFunction("o", func(xsel.Context, ...xsel.Result) (xsel.Result, error) {
		return append(xsel.NodeSet{}, lib...), nil
	}))
	for i := 0; i < 6; i++ {
		var ov xast.Expr = xast.Var{Local: "o"}
		if g.P(30) {
			ov = xast.Fn("o")
		}
		ea, eb := mkEA(g, w), mkEB(g, wB, ov)
		va, erra := w.modelEval(w.d.Root, ea)
		vb, errb := wB.modelEval(dB.Root, eb)
		if erra != nil || errb != nil {
			continue
		}
		want := refeval.ToString(va) + "|" + refeval.ToString(vb)
		e := xast.Fn("concat", xast.Fn("string", ea), xast.Lit{S: "|"}, xast.Fn("string", eb))
		if g.Bool() {
			want = refeval.ToString(vb) + "|" + refeval.ToString(va)
			e = xast.Fn("concat", xast.Fn("string", eb), xast.Lit{S: "|"}, xast.Fn("string", ea))
		}
		src := xast.String(e)
		res, xerr := ExecStr(w.m.Root, src, binds...)
		r.Eval(1)
		r.Count("queries_joining_two_documents", 1)
		got, isStr := res.(xsel.String)
		okNum := false
		if isStr && string(got) != want {
			// number formatting may legitimately differ in spelling: compare part-wise as numbers where both parse
			gp, wp := strings.SplitN(string(got), "|", 2), strings.SplitN(want, "|", 2)
			if len(gp) == 2 && len(wp) == 2 {
				okNum = true
				for k := 0; k < 2; k++ {
					if gp[k] != wp[k] && !(refeval.AcceptNumberString(refeval.StringToNumber(wp[k]), gp[k]) && wp[k] != "" && !math.IsNaN(refeval.StringToNumber(wp[k]))) {
						okNum = false
					}
				}
			}
		}
		if xerr != nil || !isStr || (string(got) != want && !okNum) {
			r.Violate(class, map[string]any{"case": idx, "what": fmt.Sprintf("%s with $o / o() = %d nodes of a second document gives %v (%v), expected %q", src, len(lib), res, errStr(xerr), want), "document": w.d.Dump(), "other_document": dB.Dump()})
			continue
		}
		r.Sig(class+"|"+src, true)
	}
	// mixed comparisons: a node-set of the queried tree against $o — true iff some pair of string-values is (un)equal
	for i := 0; i < 4; i++ {
		pa := rng.Pick(g, []xast.Expr{xast.Abs(xast.DS(), xast.S("child", xast.AnyT())), xast.Abs(xast.DS(), xast.Step{Axis: "attribute", Test: xast.AnyT(), Abbrev: true}),
			xast.Abs(xast.DS(), xast.S("child", xast.Test{Kind: xast.TText})), xast.Abs(xast.S("child", xast.AnyT()))})
		va, erra := w.modelEval(w.d.Root, pa)
		setA, ok := va.(refeval.NodeSet)
		if erra != nil || !ok {
			continue
		}
		op := rng.Pick(g, []string{"=", "!="})
		want := false
		for _, a := range setA {
			for _, b := range set {
				if (a.StringValue() == b.StringValue()) == (op == "=") {
					want = true
				}
			}
		}
		var e xast.Expr = xast.Binary{Op: op, L: pa, R: xast.Var{Local: "o"}}
		if g.Bool() {
			e = xast.Binary{Op: op, L: xast.Var{Local: "o"}, R: pa}
		}
		if g.P(30) {
			// evaluated once per node of the queried tree, inside a predicate
			e = xast.Binary{Op: "=", L: xast.Fn("count", xast.Abs(xast.DS(), xast.S("child", xast.AnyT(), xast.Binary{Op: op, L: xast.Rel(xast.Step{Axis: "self", Test: xast.NodeT(), Abbrev: true}), R: xast.Var{Local: "o"}}))), R: xast.N(-1)}
			n := 0
			all, _ := w.modelEval(w.d.Root, xast.Abs(xast.DS(), xast.S("child", xast.AnyT())))
			for _, a := range all.(refeval.NodeSet) {
				hit := false
				for _, b := range set {
					if (a.StringValue() == b.StringValue()) == (op == "=") {
						hit = true
					}
				}
				if hit {
					n++
				}
			}
			e = xast.Fn("count", xast.Abs(xast.DS(), xast.S("child", xast.AnyT(), xast.Binary{Op: op, L: xast.Rel(xast.Step{Axis: "self", Test: xast.NodeT(), Abbrev: true}), R: xast.Var{Local: "o"}})))
			src := xast.String(e)
			res, xerr := ExecStr(w.m.Root, src, binds...)
			r.Eval(1)
			if num, isNum := res.(xsel.Number); xerr != nil || !isNum || float64(num) != float64(n) {
				r.Violate(class, map[string]any{"case": idx, "what": fmt.Sprintf("%s with $o = %d nodes of a second document gives %v (%v), expected %d", src, len(lib), res, errStr(xerr), n), "document": w.d.Dump(), "other_document": dB.Dump()})
			}
			continue
		}
		src := xast.String(e)
		res, xerr := ExecStr(w.m.Root, src, binds...)
		r.Eval(1)
		r.Count("comparisons_joining_two_documents", 1)
		if b, isB := res.(xsel.Bool); xerr != nil || !isB || bool(b) != want {
			r.Violate(class, map[string]any{"case": idx, "what": fmt.Sprintf("%s with $o = %d nodes of a second document gives %v (%v), expected %v", src, len(lib), res, errStr(xerr), want), "document": w.d.Dump(), "other_document": dB.Dump()})
		}
	}
}

func fsName(g *rng.R, w *world) xast.Test {
	els, _, _ := vocab(w.d)
	if len(els) > 0 && g.P(80) {
		q := rng.Pick(g, els)
		return xast.NameT(q.Prefix, q.Local)
	}
	return xast.AnyT()
}

func fsPathEA(g *rng.R, w *world) xast.Expr {
	t := fsName(g, w)
	switch g.Intn(4) {
	case 0:
		return xast.Fn("count", xast.Abs(xast.DS(), xast.S("child", t)))
	case 1:
		return xast.Fn("string", xast.Abs(xast.DS(), xast.S("child", t, xast.N(float64(g.Range(1, 2))))))
	case 2:
		return xast.Fn("count", xast.Abs(xast.S("descendant-or-self", xast.NodeT()), xast.S("child", xast.AnyT())))
	}
	return xast.Fn("count", xast.Rel(xast.Step{Axis: "self", Test: xast.NodeT(), Abbrev: true}, xast.DS(), xast.S("child", t)))
}

func fsPathEB(g *rng.R, wB *world, ov xast.Expr) xast.Expr {
	t := fsName(g, wB)
	ds := func(steps ...xast.Step) xast.Expr {
		return xast.Path{Head: ov, Steps: append([]xast.Step{xast.DS()}, steps...)}
	}
	switch g.Intn(6) {
	case 0:
		return xast.Fn("count", ds(xast.S("child", t)))
	case 1:
		return xast.Fn("string", ds(xast.S("child", t, xast.N(float64(g.Range(1, 2))))))
	case 2:
		return xast.Fn("string", xast.Path{Head: xast.Paren{X: ds(xast.S("child", t))}, HPred: []xast.Expr{xast.Fn("last")}})
	case 3:
		return xast.Fn("count", xast.Path{Head: ov, Steps: []xast.Step{xast.S("descendant", xast.AnyT(), xast.Binary{Op: "<", L: xast.Fn("position"), R: xast.N(3)})}})
	case 4:
		return xast.Fn("count", xast.Path{Head: ov, HPred: []xast.Expr{xast.N(1)}, Steps: []xast.Step{xast.DS(), xast.S("child", xast.AnyT())}})
	}
	return xast.Fn("count", ds(xast.S("child", xast.NodeT())))
}

// ---- two parsers of the same kind pulled alternately (one event each) ----

type pulled struct {
	n   node.Node
	end bool
	err error
}

type alternator struct {
	a, b  parser.Parser
	buf   []pulled
	bDone bool
}

func (x *alternator) pullB() {
	if x.bDone {
		return
	}
	n, end, err := x.b.Pull()
	x.buf = append(x.buf, pulled{n, end, err})
	if err != nil {
		x.bDone = true
	}
}

func (x *alternator) Pull() (node.Node, bool, error) {
	x.pullB()
	return x.a.Pull()
}

type replayParser struct {
	evs []pulled
	i   int
}

func (p *replayParser) Pull() (node.Node, bool, error) {
	if p.i >= len(p.evs) {
		return nil, false, io.EOF
	}
	e := p.evs[p.i]
	p.i++
	return e.n, e.end, e.err
}

// buildAlternating builds the tree of parser a while parser b is pulled in lockstep, then the tree
// of b from the events it delivered: parsers are independent objects, so each tree must be the one
// its own input describes.
func buildAlternating(a, b parser.Parser) (ra, rb store.Cursor, ea, eb error) {
	defer func() {
		if p := recover(); p != nil {
			ea = fmt.Errorf("PANIC: %v", p)
		}
	}()
	x := &alternator{a: a, b: b}
	ra, ea = store.CreateInMemory(x)
	for !x.bDone {
		x.pullB()
	}
	rb, eb = store.CreateInMemory(&replayParser{evs: x.buf})
	return
}
