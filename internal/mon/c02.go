package mon

import (
	"fmt"
	"sort"
	"strings"
	"sync"

	"github.com/ChrisTrenkamp/xsel"

	"xselverif/internal/adoc"
	"xselverif/internal/bridge"
	"xselverif/internal/evid"
	"xselverif/internal/refeval"
	"xselverif/internal/rng"
	"xselverif/internal/xast"
)

// C02 — predicates: per-context-node proximity position, true context size.

func init() {
	Register(&Monitor{
		ID: "C02",
		Rule: "per generated document: (a) random paths (from the root and from random context nodes) whose steps carry 1-3 predicates from the classes {integer in/out of range, fractional, last(), last()-k, position() op k, position() op last(), position() mod 2, boolean, string, node-set, not(), count(), nested, absolute} on forward and reverse axes after multi-node steps; (b) filter expressions (E)[p], $v[p] with $v bound in document and in reverse order, v:nodes()[p], and continuations (E)[p]/step, (E)//step, $v/step, v:nodes()//step; all compared with the reference model; " +
			"(c) trace monitor: user function v:probe(tag, position(), last()) spliced before and after a predicate records (tag, context node identity, Context.ContextPosition(), position(), last()) and the multiset of events must equal the one the model's own probe records (per-context-node numbering in axis direction, renumbering of survivors), plus ContextPosition()+1 == position(); " +
			"(e) attribute- and namespace-axis steps carrying position-independent predicates (self::name / self::* / ../self::e / ancestor::e/self::e / not() / count() / string comparisons / and-or combinations), also as the predicate of an element step; (f) once per run a parent with 70 000 children (thorough: also 2^17+5): [k], [position()=k], [last()], (E)[position()=last()], last()-k, position() mod 65536, sibling axes from both ends, against the model; (d) library-only identities P[n]==P[position()=n], P[last()]==P[position()=last()], P[true()]==P, P[1.5]/P[0]/P[-1]/P[0 div 0]/P[1 div 0] empty. distinct_nontrivial = distinct (document shape, expression) whose expected result is a non-empty proper subset of the document or whose probe trace has >= 2 events",
		Assumptions: []string{"predicates on '.' and '..' are not in the grammar and not generated", "positional predicates directly on the attribute and namespace axes are not generated (order within an element is implementation-dependent)"},
		NCases:      func(tier string) int { return map[string]int{"quick": 900, "thorough": 12000}[tier] },
		Case:        c02Case,
		Post:        c02Big,
	})
}

// c02Big: one parent with more children than fit in 16 bits (thorough: also 17 bits + 5): the
// numbering of a single predicate's node list must not wrap.
func c02Big(r *evid.Run, tier string) {
	sizes := []int{70000}
	if tier == "thorough" {
		sizes = append(sizes, 1<<17+5)
	}
	for _, n := range sizes {
		d := adoc.NewDoc()
		top := d.AddElem(d.Root, "", "r")
		top.NoXMLNS = true
		for i := 0; i < n; i++ {
			c := d.AddElem(top, "", "a")
			c.NoXMLNS = true
		}
		d.Finish()
		w, err := newWorld(d)
		if err != nil {
			r.Inconclusive("big document: " + err.Error())
			continue
		}
		a := func(preds ...xast.Expr) xast.Path {
			return xast.Abs(xast.S("child", xast.NameT("", "r")), xast.S("child", xast.NameT("", "a"), preds...))
		}
		pos, last := xast.Fn("position"), xast.Fn("last")
		k := float64(65537)
		exprs := []xast.Expr{
			a(xast.N(k)), a(xast.Binary{Op: "=", L: pos, R: xast.N(k)}), a(xast.Binary{Op: "=", L: pos, R: xast.N(1)}), a(last), a(xast.Binary{Op: "=", L: pos, R: last}),
			xast.Path{Head: xast.Paren{X: a()}, HPred: []xast.Expr{xast.Binary{Op: "=", L: pos, R: last}}},
			xast.Path{Head: xast.Paren{X: a()}, HPred: []xast.Expr{xast.Binary{Op: "=", L: pos, R: xast.N(k)}}},
			xast.Fn("count", a(xast.Binary{Op: ">", L: pos, R: xast.N(65536)})),
			a(xast.Binary{Op: "=", L: pos, R: xast.Binary{Op: "-", L: last, R: xast.N(65536)}}),
			a(xast.Binary{Op: "=", L: xast.Binary{Op: "mod", L: pos, R: xast.N(65536)}, R: xast.N(1)}),
			xast.Path{Abs: true, Steps: []xast.Step{xast.S("child", xast.NameT("", "r")), xast.S("child", xast.NameT("", "a"), xast.N(float64(n))), xast.S("preceding-sibling", xast.NameT("", "a"), xast.Binary{Op: "=", L: pos, R: xast.N(float64(n - 1))})}},
			xast.Path{Abs: true, Steps: []xast.Step{xast.S("child", xast.NameT("", "r")), xast.S("child", xast.NameT("", "a"), xast.N(1)), xast.S("following-sibling", xast.NameT("", "a"), last)}},
			a(xast.Binary{Op: ">", L: pos, R: xast.N(65530)}, xast.Binary{Op: "=", L: pos, R: xast.N(7)}),
		}
		for _, e := range exprs {
			if v, ok := w.check(r, "big/"+fmt.Sprint(n), -1, d.Root, e, false); ok {
				r.Sig(fmt.Sprintf("big|%d|%s", n, xast.String(e)), true)
				r.Tab("expr_class", "big-node-list", 1)
				if ns, isSet := v.(refeval.NodeSet); isSet && len(ns) <= 3 {
					r.Sample("big", 3, map[string]any{"children": n, "expr": xast.String(e), "result": bridge.Show(v)})
				}
			}
		}
	}
}

const probeNS = "urn:v"

type probeEvent struct {
	Tag  float64
	Node *adoc.Node
	CPos int // Context.ContextPosition() (library) or Ctx.Pos-1 (model)
	Pos  float64
	Last float64
}

func (e probeEvent) key() string {
	return fmt.Sprintf("tag=%v node=%s ctxpos=%d position()=%v last()=%v", e.Tag, e.Node.Path(), e.CPos, e.Pos, e.Last)
}

type probeLog struct {
	mu  sync.Mutex
	evs []probeEvent
	bad []string
}

func (l *probeLog) keys() []string {
	out := make([]string, len(l.evs))
	for i, e := range l.evs {
		out[i] = e.key()
	}
	sort.Strings(out)
	return out
}

// libProbe registers v:probe through the public API.
func libProbe(w *world, log *probeLog) []xsel.ContextApply {
	fn := func(ctx xsel.Context, args ...xsel.Result) (xsel.Result, error) {
		log.mu.Lock()
		defer log.mu.Unlock()
		ns, ok := ctx.Result().(xsel.NodeSet)
		if !ok || len(ns) != 1 || len(args) != 3 {
			log.bad = append(log.bad, fmt.Sprintf("probe called with context %T (len %d) and %d args", ctx.Result(), len(ns), len(args)))
			return xsel.Bool(true), nil
		}
		a, ok := w.m.ToA[bridge.Canon(ns[0])]
		if !ok {
			log.bad = append(log.bad, "probe context node is not a node of the document")
			return xsel.Bool(true), nil
		}
		log.evs = append(log.evs, probeEvent{Tag: args[0].Number(), Node: a, CPos: ctx.ContextPosition(), Pos: args[1].Number(), Last: args[2].Number()})
		return xsel.Bool(true), nil
	}
	return []xsel.ContextApply{xsel.WithNS("v", probeNS), xsel.WithFunctionNS(probeNS, "probe", fn)}
}

func modelProbe(log *probeLog) refeval.Func {
	return func(c refeval.Ctx, ctxSet refeval.NodeSet, args []refeval.Value) (refeval.Value, error) {
		log.evs = append(log.evs, probeEvent{Tag: refeval.ToNumber(args[0]), Node: c.Node, CPos: c.Pos - 1, Pos: refeval.ToNumber(args[1]), Last: refeval.ToNumber(args[2])})
		return true, nil
	}
}

func probeCall(tag int) xast.Expr {
	return xast.Call{Prefix: "v", Local: "probe", Args: []xast.Expr{xast.N(float64(tag)), xast.Fn("position"), xast.Fn("last")}}
}

var c02Funcs = map[string]bool{"last": true, "position": true, "count": true, "not": true, "true": true, "false": true, "number": true, "string-length": true, "boolean": true}

func c02Case(r *evid.Run, tier string, idx int, g *rng.R) {
	o := adoc.GenOpts{MinNodes: 6, MaxNodes: 45, NS: g.Intn(2), Misc: g.P(50), Weird: g.P(15)}
	d := adoc.Generate(g, o)
	if idx%25 == 11 {
		// a wide element and an element with many attributes: sizes around the usual strategy thresholds
		ws := adoc.Thresholds[:8]
		// (the same widths in both tiers: nested predicates over the sibling axes of a w-wide element cost up to w^4)
		adoc.Widen(g, d, rng.Pick(g, ws), false)
		adoc.ManyAttrs(g, d, rng.Pick(g, []int{5, 9, 12, 16, 17, 40}))
		d.Finish()
		r.Count("cases_with_wide_elements", 1)
	}
	w, err := newWorld(d)
	if err == nil && idx%4 == 3 {
		// every fourth case runs the evaluator on the independent Cursor implementation (R-ref)
		w, err = newRefWorld(d)
		r.Count("cases_on_reference_cursor", 1)
		if err == nil && idx%8 == 7 {
			// identity of nodes is Pos(): this view hands out a fresh cursor value on every access
			w.lazy = true
			r.Count("cases_on_lazily_allocated_cursors", 1)
		}
	}
	if err != nil {
		r.Inconclusive("store tree mismatch: " + err.Error())
		return
	}
	shape := d.Shape()
	total := len(d.All)
	elems, attrs, targets := vocab(d)
	noAttrNS := []string{"child", "child", "child", "descendant", "descendant-or-self", "following", "following-sibling", "self", "parent", "ancestor", "ancestor-or-self", "preceding", "preceding-sibling"}
	cfg := &xast.Cfg{Elems: elems, Attrs: attrs, Prefixes: []string{"p", "q"}, Targets: targets, Axes: noAttrNS,
		MaxSteps: 3, MaxDepth: 2, PredPct: 70, Abbrev: 50, AbsInPred: true, Funcs: c02Funcs, StrLits: []string{"1", "a", "", "abc"}}
	gen := &xast.Gen{R: g, C: cfg}

	// variables: a node-set in document order and the same reversed; a user function returning one
	var pool []*adoc.Node
	for _, n := range d.All {
		if n.Kind != adoc.NS && g.P(35) {
			pool = append(pool, n)
		}
	}
	vset := refeval.NodeSet(adoc.SortDoc(pool))
	fwd := w.m.Lib(vset).(xsel.NodeSet)
	rev := make(xsel.NodeSet, len(fwd))
	for i := range fwd {
		rev[len(fwd)-1-i] = fwd[i]
	}
	shuf := append(xsel.NodeSet{}, fwd...)
	rng.Shuffle(g, shuf)
	w.env.Vars = map[refeval.Name]refeval.Value{{Space: "", Local: "fwd"}: vset, {Space: "", Local: "rev"}: vset, {Space: "", Local: "shuf"}: vset}
	w.env.NS = map[string]string{"p": canonNS["p"], "q": canonNS["q"], "r": canonNS["r"], "xml": adoc.XMLNS, "v": probeNS}
	w.opts = nsOpts(w.env.NS)
	w.env.Funcs = map[refeval.Name]refeval.Func{{Space: probeNS, Local: "nodes"}: func(c refeval.Ctx, cs refeval.NodeSet, a []refeval.Value) (refeval.Value, error) {
		return vset, nil
	}}
	bind := []xsel.ContextApply{xsel.WithVariable("fwd", fwd), xsel.WithVariable("rev", rev), xsel.WithVariable("shuf", shuf),
		xsel.WithFunctionNS(probeNS, "nodes", func(ctx xsel.Context, args ...xsel.Result) (xsel.Result, error) {
			return append(xsel.NodeSet{}, rev...), nil
		})}
	cfg.Vars = []xast.VarSpec{{Local: "fwd", T: xast.TNodeSet}, {Local: "rev", T: xast.TNodeSet}, {Local: "shuf", T: xast.TNodeSet}}

	note := func(e xast.Expr, v refeval.Value, class string) {
		nt := nontrivialSet(v, total)
		r.Sig(shape+"|"+xast.String(e), nt)
		r.Tab("expr_class", class, 1)
		if nt {
			r.Sample(class, 2, map[string]any{"case": idx, "expr": xast.String(e), "result": bridge.Show(v), "document": d.Dump()})
		}
	}

	n1 := 25
	if tier == "thorough" {
		n1 = 40
	}
	// (a) predicate-bearing location paths
	for i := 0; i < n1; i++ {
		var p xast.Path
		ctx := d.Root
		if g.P(60) {
			p = gen.AbsPath(0)
		} else {
			// absolute paths are only judged for queries started at the root (DESIGN §3.4)
			cfg.AbsInPred = false
			p = gen.RelPath(0)
			cfg.AbsInPred = true
			ctx = rng.Pick(g, d.All)
		}
		if v, ok := w.check(r, "pred/path", idx, ctx, p, false, bind...); ok {
			note(p, v, "path")
		}
	}
	// (b) filter expressions and continuations
	cfg.Filters = true
	for i := 0; i < n1; i++ {
		var head xast.Expr
		switch g.Intn(7) {
		case 5:
			head = xast.Var{Local: "shuf"}
		case 0:
			head = xast.Var{Local: "fwd"}
		case 1:
			head = xast.Var{Local: "rev"}
		case 2:
			head = xast.Call{Prefix: "v", Local: "nodes"}
		case 3:
			// the namespace and attribute nodes of the same elements in one set: namespace nodes come first
			x := gen.AbsPath(2)
			a, b := x, x
			a.Steps = append(append([]xast.Step{}, x.Steps...), xast.S("namespace", xast.AnyT()))
			b.Steps = append(append([]xast.Step{}, x.Steps...), xast.Step{Axis: "attribute", Test: xast.AnyT(), Abbrev: true})
			if g.Bool() {
				a, b = b, a
			}
			head = xast.Paren{X: xast.Binary{Op: "|", L: a, R: b}}
		default:
			inner := gen.AbsPath(1)
			if g.P(30) {
				// reverse axis inside the parentheses: numbering must still be document order
				inner.Steps = append(inner.Steps, xast.Step{Axis: rng.Pick(g, []string{"ancestor", "preceding", "preceding-sibling", "ancestor-or-self"}), Test: xast.AnyT()})
			}
			head = xast.Paren{X: inner}
		}
		p := xast.Path{Head: head}
		for k := g.Range(0, 2); k > 0; k-- {
			p.HPred = append(p.HPred, gen.Pred(1))
		}
		if g.P(70) {
			if g.P(30) {
				p.Steps = append(p.Steps, xast.DS())
			}
			p.Steps = append(p.Steps, gen.RelPath(1).Steps...)
		}
		if len(p.HPred) == 0 && len(p.Steps) == 0 {
			p.HPred = append(p.HPred, gen.Pred(1))
		}
		if v, ok := w.check(r, "pred/filter", idx, d.Root, p, false, bind...); ok {
			note(p, v, "filter")
		}
	}
	// (c) probe traces
	for i := 0; i < n1/2; i++ {
		p := gen.AbsPath(2) // steps without predicates (depth == MaxDepth)
		// pick a non-abbreviated-self/parent step to instrument
		var cand []int
		for si, s := range p.Steps {
			if !s.DSlash && !(s.Abbrev && (s.Axis == "self" || s.Axis == "parent")) {
				cand = append(cand, si)
			}
		}
		if len(cand) == 0 {
			continue
		}
		si := rng.Pick(g, cand)
		mid := gen.Pred(2)
		p.Steps[si].Preds = []xast.Expr{probeCall(1), mid, probeCall(2)}
		libLog, modLog := &probeLog{}, &probeLog{}
		w.env.Funcs[refeval.Name{Space: probeNS, Local: "probe"}] = modelProbe(modLog)
		extra := append(append([]xsel.ContextApply{}, bind...), libProbe(w, libLog)...)
		v, ok := w.check(r, "probe/result", idx, d.Root, p, false, extra...)
		delete(w.env.Funcs, refeval.Name{Space: probeNS, Local: "probe"})
		if !ok {
			continue
		}
		r.Count("probe_events", len(libLog.evs))
		lk, mk := libLog.keys(), modLog.keys()
		r.Sig(shape+"|probe|"+xast.String(p), len(mk) >= 2)
		what := ""
		if len(libLog.bad) > 0 {
			what = libLog.bad[0]
		} else if strings.Join(lk, "\n") != strings.Join(mk, "\n") {
			what = fmt.Sprintf("probe events differ: library observed %d events, specification has %d; first difference: %s", len(lk), len(mk), firstDiff(lk, mk))
		} else {
			for _, e := range libLog.evs {
				if float64(e.CPos+1) != e.Pos {
					what = fmt.Sprintf("ContextPosition()+1 != position(): %s", e.key())
				}
			}
		}
		if what != "" {
			r.Violate("probe/trace", map[string]any{"case": idx, "what": xast.String(p) + ": " + what, "expr": xast.String(p), "document": d.Dump(), "library_events": head(lk, 12), "spec_events": head(mk, 12)})
		} else if len(mk) >= 2 {
			r.Sample("probe", 2, map[string]any{"case": idx, "expr": xast.String(p), "events": head(lk, 6), "result": bridge.Show(v)})
		}
	}
	// (e) position-independent predicates on attribute- and namespace-axis steps: the context of the
	// predicate is an attribute / namespace node, and steps inside it start again with their own principal node type
	anyName := func() xast.Test {
		switch g.Intn(5) {
		case 0:
			return xast.AnyT()
		case 1:
			if len(attrs) > 0 {
				a := rng.Pick(g, attrs)
				return xast.NameT(a.Prefix, a.Local)
			}
		case 2:
			return xast.NameT("", rng.Pick(g, []string{"p", "q", "xml", "id"}))
		case 3:
			return xast.NodeT()
		}
		if len(elems) > 0 {
			e := rng.Pick(g, elems)
			return xast.NameT(e.Prefix, e.Local)
		}
		return xast.AnyT()
	}
	elemName := func() xast.Test {
		if len(elems) > 0 && g.P(80) {
			e := rng.Pick(g, elems)
			return xast.NameT(e.Prefix, e.Local)
		}
		return xast.AnyT()
	}
	dot := xast.Rel(xast.Step{Axis: "self", Test: xast.NodeT(), Abbrev: true})
	var nonPos func(depth int) xast.Expr
	nonPos = func(depth int) xast.Expr {
		self := xast.Rel(xast.S("self", anyName()))
		switch k := g.Intn(10); {
		case k == 0:
			return self
		case k == 1:
			return xast.Fn("not", self)
		case k == 2:
			return xast.Rel(xast.Step{Axis: "parent", Test: xast.NodeT(), Abbrev: g.Bool()}, xast.S("self", elemName()))
		case k == 3:
			t := elemName()
			return xast.Rel(xast.S(rng.Pick(g, []string{"ancestor", "parent", "ancestor-or-self"}), t), xast.S("self", t))
		case k == 4:
			return xast.Binary{Op: "=", L: xast.Fn("count", self), R: xast.N(float64(g.Intn(2)))}
		case k == 5:
			return xast.Binary{Op: rng.Pick(g, []string{"=", "!="}), L: dot, R: xast.Lit{S: rng.Pick(g, cfg.StrLits)}}
		case k == 6 && depth < 2:
			return xast.Binary{Op: rng.Pick(g, []string{"and", "or"}), L: nonPos(depth + 1), R: nonPos(depth + 1)}
		case k == 7:
			return xast.Rel(xast.Step{Axis: "parent", Test: xast.NodeT(), Abbrev: true}, xast.Step{Axis: "attribute", Test: anyName(), Abbrev: g.Bool()})
		case k == 8:
			return xast.Fn("boolean", self)
		}
		return xast.Rel(xast.S("self", anyName()), xast.S("parent", elemName()))
	}
	for i := 0; i < n1; i++ {
		p := gen.AbsPath(2)
		var st xast.Step
		if g.P(65) {
			st = xast.Step{Axis: "attribute", Test: anyName(), Abbrev: g.Bool()}
			if st.Test.Kind == xast.NodeT().Kind && g.Bool() {
				st.Test = xast.AnyT()
			}
		} else {
			// name tests on the namespace axis follow the library's own URI-based rule (C01) and stay out
			st = xast.S("namespace", rng.Pick(g, []xast.Test{xast.AnyT(), xast.NodeT()}))
		}
		for k := g.Range(1, 2); k > 0; k-- {
			st.Preds = append(st.Preds, nonPos(0))
		}
		p.Steps = append(p.Steps, st)
		if g.P(30) {
			p.Steps = append(p.Steps, xast.Step{Axis: "parent", Test: xast.NodeT(), Abbrev: g.Bool()})
		}
		var e xast.Expr = p
		if g.P(25) {
			// the same step as the predicate of an element step: //a[@*[self::x]]
			q := gen.AbsPath(2)
			lastq := &q.Steps[len(q.Steps)-1]
			if !(lastq.Abbrev && (lastq.Axis == "self" || lastq.Axis == "parent")) && !lastq.DSlash {
				lastq.Preds = append(lastq.Preds, xast.Rel(st))
				e = q
			}
		}
		if v, ok := w.check(r, "pred/attr-ns-step", idx, d.Root, e, false, bind...); ok {
			note(e, v, "attr-ns-step-predicate")
		}
	}
	if idx%3 == 0 && !w.ref {
		c02Foreign(r, idx, g, w, o)
	}
	// (d) library-only identities
	for i := 0; i < n1/2; i++ {
		base := gen.AbsPath(2)
		last := &base.Steps[len(base.Steps)-1]
		if last.Abbrev && (last.Axis == "self" || last.Axis == "parent") {
			continue
		}
		with := func(pred xast.Expr) xast.Path {
			p := base
			p.Steps = append([]xast.Step{}, base.Steps...)
			p.Steps[len(p.Steps)-1].Preds = []xast.Expr{pred}
			return p
		}
		k := float64(g.Range(1, 3))
		pairs := [][2]xast.Expr{
			{with(xast.N(k)), with(xast.Binary{Op: "=", L: xast.Fn("position"), R: xast.N(k)})},
			{with(xast.Fn("last")), with(xast.Binary{Op: "=", L: xast.Fn("position"), R: xast.Fn("last")})},
			{with(xast.Fn("true")), base},
		}
		for _, pr := range pairs {
			a, _, ea := w.libEval(d.Root, xast.String(pr[0]))
			b, _, eb := w.libEval(d.Root, xast.String(pr[1]))
			r.Eval(2)
			r.Count("identity_checks", 1)
			if ea != nil || eb != nil || !bridge.Equal(a, b, false) {
				r.Violate("identity", map[string]any{"case": idx, "what": fmt.Sprintf("%s gives %s (%v) but %s gives %s (%v)", xast.String(pr[0]), bridge.Show(a), errStr(ea), xast.String(pr[1]), bridge.Show(b), errStr(eb)), "document": d.Dump()})
			}
		}
		for _, pred := range []xast.Expr{xast.N(1.5), xast.N(0), xast.Neg{X: xast.N(1)}, xast.Binary{Op: "div", L: xast.N(0), R: xast.N(0)}, xast.Binary{Op: "div", L: xast.N(1), R: xast.N(0)}} {
			e := with(pred)
			a, _, ea := w.libEval(d.Root, xast.String(e))
			r.Eval(1)
			r.Count("identity_checks", 1)
			if ns, ok := a.(refeval.NodeSet); ea != nil || !ok || len(ns) != 0 {
				r.Violate("identity/empty", map[string]any{"case": idx, "what": fmt.Sprintf("%s must be empty, library gives %s (%v)", xast.String(e), bridge.Show(a), errStr(ea)), "document": d.Dump()})
			}
		}
	}
}

// c02Foreign: paths continued after a variable / custom function that holds nodes of another tree.
func c02Foreign(r *evid.Run, idx int, g *rng.R, w *world, o adoc.GenOpts) {
	saveV, saveF := w.env.Vars, w.env.Funcs
	w.env.Vars, w.env.Funcs = nil, nil
	foreignSection(r, "pred/two-documents", idx, g, w, o, fsPathEA, fsPathEB)
	w.env.Vars, w.env.Funcs = saveV, saveF
}

func head(xs []string, n int) []string {
	if len(xs) > n {
		return xs[:n]
	}
	return xs
}

func firstDiff(a, b []string) string {
	for i := 0; i < len(a) || i < len(b); i++ {
		var x, y string
		if i < len(a) {
			x = a[i]
		}
		if i < len(b) {
			y = b[i]
		}
		if x != y {
			return fmt.Sprintf("library[%d]=%q specification[%d]=%q", i, x, i, y)
		}
	}
	return ""
}
