package mon

import (
	"math"
	"strconv"
	"strings"

	"xselverif/internal/adoc"
	"xselverif/internal/refeval"
	"xselverif/internal/rng"
)

// Boundary doubles used by C04–C07.
var boundaryDoubles = []float64{
	0, math.Copysign(0, -1), 1, -1, 0.5, -0.5, 1.5, -1.5, 2.5, -2.5, 0.49999999999999994, -0.49999999999999994,
	2, 3, 4, 5, 7, 10, -2, -3, -7, 100, 0.1, 0.2, 0.3, 1e21, 1e-7, 5e-324, -5e-324, 1e300, -1e300,
	1 << 52, 1<<52 + 1, 1<<53 - 1, 1 << 53, 1<<53 + 2, 1 << 62, 1 << 63, -(1 << 63), 1 << 64, 1.7976931348623157e308,
	math.NaN(), math.Inf(1), math.Inf(-1), 4503599627370497, -4503599627370497, 4503599627370495.5, 123456789.125, 0.001, 1e15, 1e16, 1e17,
	2147483647, 2147483648, -2147483649, 9007199254740993, 3.14, 2.50, 0.30,
}

func genDouble(g *rng.R) float64 {
	switch g.Intn(10) {
	case 0, 1, 2, 3:
		return rng.Pick(g, boundaryDoubles)
	case 4:
		return float64(g.Range(-20, 20)) + 0.5
	case 5:
		return float64(g.Range(-30, 30))
	case 6:
		return (g.F01() - 0.5) * 2 // (-1,1)
	case 7:
		return math.Ldexp(g.F01()+1, g.Range(50, 66)) * float64(1-2*g.Intn(2))
	case 8:
		return float64(g.Range(-100000, 100000)) / float64(g.Range(1, 1000))
	}
	return g.Bits()
}

// Numeric-lexical string classes and near misses.
var numericStrings = []string{
	"", " ", "0", "-0", "1", "-1", "12", " 12 ", "\t12\n", "\r\n7\r\n", "1.5", "-1.5", ".5", "-.5", "5.", "-5.", "0.", ".0", ".", "-", "-.", "1e3", "1E3", "+1", "+1.5", "--1", "- 1", "1 2",
	"Infinity", "-Infinity", "infinity", "inf", "Inf", "+Inf", "NaN", "nan", "0x10", "0X1p3", "1_0", "1__0", "0b1", "0o7", "١", "１", "1,5", "1.5.2", "1..5", "1.e1", "1f", "1d", " 12", "12 ",
	" 12", "12 ", " 12", "\v12", "\f12", "12\v", "000", "007", "00.50", "9", "10", "09", "100000000000000000000000000000", "1" + strings.Repeat("0", 400), "0." + strings.Repeat("0", 400) + "1",
	"4503599627370497.5", "9007199254740993", "1.7976931348623159e308", "179769313486231580793728971405303415079934132710037826936173778980444968292764750946649017977587207096330286416692887910946555547851940402630657488671505820681908902000708383676273854845817711531764475730270069855571366959622842914819860834936475292719074168444365510704342711559699508093042880177904174497792",
	"abc", "true", "false", "a1", "1a", "é", "日本", "😀",
}

// genLongNumeral: decimal numerals with 12..25 significant digits and a fraction (where a
// conversion that is not correctly rounded shows), or the shortest spelling of a random double.
func genLongNumeral(g *rng.R) string {
	if g.P(40) {
		f := math.Ldexp(g.F01()+1, g.Range(-12, 40))
		return strconv.FormatFloat(f, 'f', -1, 64)
	}
	n := g.Range(12, 25)
	point := g.Range(0, n-1)
	var sb strings.Builder
	if g.P(20) {
		sb.WriteByte('-')
	}
	for i := 0; i < n; i++ {
		if i == point {
			if i == 0 && g.Bool() {
				sb.WriteByte('0')
			}
			sb.WriteByte('.')
		}
		d := byte('0' + g.Intn(10))
		if i == 0 && point != 0 && d == '0' {
			d = '7'
		}
		sb.WriteByte(d)
	}
	return sb.String()
}

func genNumericString(g *rng.R) string {
	if g.P(10) {
		return genLongNumeral(g)
	}
	if g.P(60) {
		return rng.Pick(g, numericStrings)
	}
	alphabet := []string{"0", "1", "2", "5", "9", ".", "-", "+", "e", "E", "x", "I", "n", "f", "N", "a", "_", " ", "\t", "\r", "\n", " "}
	n := g.Range(1, 6)
	var sb strings.Builder
	for i := 0; i < n; i++ {
		if g.P(60) {
			sb.WriteString(alphabet[g.Intn(5)])
		} else {
			sb.WriteString(rng.Pick(g, alphabet))
		}
	}
	return sb.String()
}

// valueDoc builds <r><v>..</v>...</r> with the given string-values (one
// element per value; a value may also be carried by an attribute on it).
func valueDoc(vals []string) (*adoc.Doc, []*adoc.Node) {
	d := adoc.NewDoc()
	root := d.AddElem(d.Root, "", "r")
	var nodes []*adoc.Node
	for _, v := range vals {
		e := d.AddElem(root, "", "v")
		if v != "" {
			// split across nested markup so that the string-value needs concatenation
			if len(v) > 2 && len(v)%3 == 0 && v[1] < 0x80 && v[0] < 0x80 {
				d.AddText(e, v[:1])
				in := d.AddElem(e, "", "i")
				d.AddText(in, v[1:])
			} else {
				d.AddText(e, v)
			}
		}
		nodes = append(nodes, e)
	}
	d.Finish()
	return d, nodes
}

var comparisonValues = []string{"1", " 2 ", "10", "9", "abc", "", "NaN", "-0", "0", "1e3", "1", "abc", "2", "1.0", "01", "true", " ", "-1", "Infinity"}

func showDouble(f float64) string {
	if f == 0 && math.Signbit(f) {
		return "-0"
	}
	return refeval.NumberToString(f)
}
