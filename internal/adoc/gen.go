package adoc

import (
	"fmt"
	"strings"

	"xselverif/internal/rng"
)

// Generation is class-aware, not uniform: shapes, name collisions, namespace
// layouts and text value classes are chosen to make positional predicates,
// axes and conversions discriminate.

type GenOpts struct {
	MinNodes, MaxNodes int
	NS                 int  // 0 none, 1 some, 2 heavy
	Misc               bool // comments / PIs, top-level misc
	Weird              bool // names spelling axes/node types, '-', '.', digits, '#'
	Lang               bool // xml:lang attributes
	Unicode            bool // non-ASCII text
	NumericText        bool // favour numeric text classes
	XMLSafe            bool // keep to what an XML 1.0 text can carry and encoding/xml round-trips
	NoAdjText          bool // never two adjacent text nodes (XML merges them)
	NoXMLNS            bool // scripted stream does not emit the xml binding
}

var (
	plainLocals = []string{"a", "b", "c", "d", "x", "item"}
	weirdLocals = []string{"a-1", "b.c", "x2", "child", "text", "self", "node", "comment", "parent", "attribute", "ab-cd.e9",
		"ancestor", "preceding", "following", "descendant", "ancestors", "preceding-item", "namespace", "ancestor-or-self", "following-sibling", "nan", "inf", "Infinity", "NaN", "e", "#h"}
	uris       = []string{"urn:a", "urn:b", "http://x.y/z"}
	prefixes   = []string{"p", "q", "r"}
	attrLocals = []string{"id", "k", "n", "v"}
	piTargets  = []string{"pi", "xsl", "t-1", "xml-stylesheet", "xmlfoo"}
	langTags   = []string{"en", "en-GB", "en-US", "de", "zh", "zh-TW", "zh-Hant", "zh-Hant-TW", "EN", "fr-CA", "x-private", "sr-Latn-RS", "", "e", "eng", "de-CH-1901",
		"zh_TW", "EN_us", "DE-ö", "sr-Latn@x", "X-[a]-b", "A`", "en-{a}", "EN-[a]", "Én", "en-É", "En-\u0130", "a^b-C"}
)

func LangTags() []string { return langTags }

// TextValue draws from the value classes of DESIGN §3.1.
func TextValue(r *rng.R, o GenOpts) string {
	s := textValue(r, o)
	if o.XMLSafe && s == "" {
		return "e"
	}
	return s
}

func textValue(r *rng.R, o GenOpts) string {
	if o.NumericText || r.P(45) {
		switch r.Intn(16) {
		case 0:
			return fmt.Sprint(r.Intn(20))
		case 1:
			return fmt.Sprint(r.Intn(2000) - 1000)
		case 2:
			return fmt.Sprintf("%d.%d", r.Intn(50), r.Intn(100))
		case 3:
			return fmt.Sprintf("-%d.%d", r.Intn(50), r.Intn(10))
		case 4:
			return fmt.Sprintf(" %d ", r.Intn(30))
		case 5:
			return fmt.Sprintf("\t%d\n", r.Intn(30))
		case 6:
			return "1e3"
		case 7:
			return "+1"
		case 8:
			return rng.Pick(r, []string{"Infinity", "NaN", "-Infinity", "inf", "0x10", "1_0"})
		case 9:
			return rng.Pick(r, []string{"10", "9", "09", "9.0", "-0", "0", ".5", "5.", "-.5", "- 1", "1 2"})
		case 10:
			return fmt.Sprintf("%d", 1<<uint(r.Range(20, 62)))
		case 11:
			return rng.Pick(r, []string{"0.1", "0.30", "2.50", "3.14", "1000000000000000000000", "0.0000001"})
		default:
			return fmt.Sprint(r.Intn(12))
		}
	}
	switch r.Intn(12) {
	case 0:
		return ""
	case 1:
		return rng.Pick(r, []string{" ", "  ", "\t", "\n", " \n\t "})
	case 2:
		if o.Unicode {
			return rng.Pick(r, []string{"é", "日本語", "á", "😀", "x😀y", "ß", " ", " x ", "ǆ", "̀"})
		}
		return "abc"
	case 3:
		return rng.Pick(r, []string{"abc", "ab", "b", "abcabc", "ABC", "true", "false"})
	case 4:
		return rng.Pick(r, []string{"a b", " a  b ", "a\tb\nc", "  lead", "trail  "})
	case 5:
		if o.XMLSafe {
			return rng.Pick(r, []string{"<&>", "a&b", "\"q\"", "'s'", "]]>", "a<b"})
		}
		return rng.Pick(r, []string{"<&>", "a&b", "\"q\"", "'s'", "]]>", "a\rb", "\r\n"})
	default:
		n := r.Range(1, 6)
		var sb strings.Builder
		for i := 0; i < n; i++ {
			sb.WriteByte("abcxyz012 "[r.Intn(10)])
		}
		return sb.String()
	}
}

type gen struct {
	r      *rng.R
	o      GenOpts
	d      *Doc
	budget int
	locals []string
}

func (g *gen) name() (space, local string) {
	local = rng.Pick(g.r, g.locals)
	if g.o.NS > 0 && g.r.P(20*g.o.NS) {
		space = rng.Pick(g.r, uris)
	}
	return
}

func (g *gen) decorate(e *Node) {
	r := g.r
	// namespace declarations
	if g.o.NS > 0 {
		if e.Parent.Kind == Root || r.P(12*g.o.NS) {
			n := r.Range(0, 2)
			if e.Parent.Kind == Root && g.o.NS == 2 {
				n = r.Range(1, 3)
			}
			used := map[string]bool{}
			for i := 0; i < n; i++ {
				p := rng.Pick(r, prefixes)
				if r.P(25) {
					p = ""
				}
				if used[p] {
					continue
				}
				used[p] = true
				e.Decls = append(e.Decls, Decl{p, rng.Pick(r, uris)})
			}
		}
	}
	e.NoXMLNS = g.o.NoXMLNS
	// attributes
	na := 0
	switch r.Intn(6) {
	case 0, 1:
		na = 1
	case 2:
		na = 2
	case 3:
		na = r.Range(0, 4)
	}
	used := map[string]bool{}
	for i := 0; i < na; i++ {
		space, local := "", rng.Pick(r, attrLocals)
		if g.o.Weird && r.P(10) {
			local = rng.Pick(r, weirdLocals[:len(weirdLocals)-1])
		}
		if g.o.NS > 0 && r.P(25) {
			space = rng.Pick(r, uris)
		}
		key := space + "|" + local
		if used[key] {
			continue
		}
		used[key] = true
		g.d.AddAttr(e, space, local, TextValue(r, g.o))
		g.budget--
	}
	if g.o.Lang && r.P(30) && !used[XMLNS+"|lang"] {
		// now and then next to attributes that are merely called lang (XHTML's lang, a foreign o:lang)
		other := func() {
			if r.P(25) {
				space := ""
				if g.o.NS > 0 && r.Bool() {
					space = rng.Pick(r, uris)
				}
				if !used[space+"|lang"] {
					used[space+"|lang"] = true
					g.d.AddAttr(e, space, "lang", rng.Pick(r, langTags))
				}
			}
		}
		other()
		g.d.AddAttr(e, XMLNS, "lang", rng.Pick(r, langTags))
		other()
	} else if g.o.Lang && r.P(8) {
		g.d.AddAttr(e, "", "lang", rng.Pick(r, langTags))
	}
}

func (g *gen) leafContent(e *Node) {
	r := g.r
	switch r.Intn(5) {
	case 0:
	default:
		g.d.AddText(e, TextValue(r, g.o))
		g.budget--
	}
}

func (g *gen) misc(parent *Node) {
	if !g.o.Misc {
		return
	}
	r := g.r
	if r.P(50) {
		g.d.AddComment(parent, rng.Pick(r, []string{"c", " a comment ", "", "12", "x-y"}))
	} else {
		g.d.AddPI(parent, rng.Pick(r, piTargets), rng.Pick(r, []string{"", "d", "a=\"1\"", "12", "d ", "a  b \t", "1 ", "x\n", "a ? b", "7\n "}))
	}
	g.budget--
}

func (g *gen) lastIsText(p *Node) bool {
	return len(p.Children) > 0 && p.Children[len(p.Children)-1].Kind == Text
}

// fill adds content to e according to a local shape choice.
func (g *gen) fill(e *Node, depth int, shape int) {
	r := g.r
	if g.budget <= 0 || depth > 40 {
		g.leafContent(e)
		return
	}
	var kids int
	switch shape {
	case 0: // deep chain
		kids = 1
	case 1: // wide flat
		kids = r.Range(3, 9)
		if depth > 1 {
			kids = 0
		}
	case 2: // balanced
		kids = r.Range(2, 3)
		if depth > 3 {
			kids = 0
		}
	case 3: // comb
		kids = 2
	default: // mixed
		kids = r.Range(0, 4)
	}
	if kids == 0 {
		g.leafContent(e)
		return
	}
	for i := 0; i < kids && g.budget > 0; i++ {
		if shape >= 4 || r.P(25) {
			// mixed content
			if r.P(35) && !(g.o.NoAdjText && g.lastIsText(e)) {
				g.d.AddText(e, TextValue(r, g.o))
				g.budget--
			}
			if r.P(15) {
				g.misc(e)
			}
		}
		space, local := g.name()
		// adjacent equal names are common so positional predicates discriminate
		if len(e.Children) > 0 && r.P(45) {
			if last := e.Children[len(e.Children)-1]; last.Kind == Elem {
				space, local = last.Space, last.Local
			}
		}
		c := g.d.AddElem(e, space, local)
		g.budget--
		g.decorate(c)
		sub := shape
		if shape == 3 && i == 0 {
			g.leafContent(c)
			continue
		}
		if shape >= 4 {
			sub = 4 + r.Intn(2)
		}
		g.fill(c, depth+1, sub)
	}
	if (shape >= 4 || r.P(15)) && r.P(30) && !(g.o.NoAdjText && g.lastIsText(e)) {
		g.d.AddText(e, TextValue(r, g.o))
		g.budget--
	}
}

// Generate builds one document.
func Generate(r *rng.R, o GenOpts) *Doc {
	if o.MaxNodes < 1 {
		o.MaxNodes = 30
	}
	g := &gen{r: r, o: o, d: NewDoc()}
	g.budget = r.Range(o.MinNodes, o.MaxNodes)
	g.locals = append([]string{}, plainLocals[:r.Range(2, len(plainLocals))]...)
	if o.Weird {
		for i := 0; i < 2; i++ {
			g.locals = append(g.locals, rng.Pick(r, weirdLocals))
		}
	}
	root := g.d.Root
	if o.Misc && r.P(40) {
		for i := r.Range(1, 2); i > 0; i-- {
			g.misc(root)
		}
	}
	space, local := g.name()
	top := g.d.AddElem(root, space, local)
	g.budget--
	g.decorate(top)
	shape := r.Intn(7)
	if g.budget <= 1 {
		g.leafContent(top)
	} else {
		g.fill(top, 1, shape)
	}
	if o.Misc && r.P(40) {
		for i := r.Range(1, 2); i > 0; i-- {
			g.misc(root)
		}
	}
	// make element names consistent with declared namespaces where possible:
	// nothing to do — expanded names are primary; serialisers invent prefixes.
	g.d.Finish()
	return g.d
}

// NSQuirks adds namespace-declaration patterns a scripted parser (or unusual
// XML) can produce: a prefix declared twice on one element with other
// declarations in between, overrides of inherited prefixes, and (when undeclare
// is set) undeclaration of the default namespace. Call before Finish.
func NSQuirks(r *rng.R, d *Doc, undeclare bool) {
	var walk func(n *Node, inherited []Decl)
	walk = func(n *Node, inherited []Decl) {
		if n.Kind == Elem {
			if len(n.Decls) > 0 && r.P(25) {
				dup := n.Decls[r.Intn(len(n.Decls))]
				if dup.URI != "" {
					dup.URI += "/again"
					n.Decls = append(n.Decls, Decl{rng.Pick(r, []string{"zz", "yy"}), "urn:between"}, dup)
				}
			}
			if len(inherited) > 0 && r.P(15) {
				in := rng.Pick(r, inherited)
				if in.URI != "" {
					n.Decls = append(n.Decls, Decl{in.Prefix, in.URI + "/o"})
				}
			}
			if undeclare && r.P(10) {
				n.Decls = append(n.Decls, Decl{"", ""})
			}
			inherited = append(append([]Decl{}, inherited...), n.Decls...)
		}
		for _, c := range n.Children {
			walk(c, inherited)
		}
	}
	walk(d.Root, nil)
}

// Thresholds are sizes around which implementations tend to change strategy
// (small-buffer fast paths, fixed arrays, bisection limits, integer widths).
var Thresholds = []int{9, 16, 17, 33, 64, 65, 66, 130, 257, 300, 520, 1030}

// Widen appends n children to a randomly chosen element: elements named from
// the document's own vocabulary, now and then a comment or (never adjacent)
// a text node. The caller must call Finish afterwards. Returns the element.
func Widen(r *rng.R, d *Doc, n int, xmlSafe bool) *Node {
	els := d.Elements()
	e := rng.Pick(r, els)
	names := map[string]bool{}
	var vocab []*Node
	for _, x := range els {
		k := x.Space + "|" + x.Local
		if !names[k] {
			names[k] = true
			vocab = append(vocab, x)
		}
	}
	lastText := len(e.Children) > 0 && e.Children[len(e.Children)-1].Kind == Text
	for i := 0; i < n; i++ {
		switch k := r.Intn(10); {
		case k == 0 && !lastText:
			d.AddText(e, fmt.Sprint(r.Intn(100)))
			lastText = true
			continue
		case k == 1:
			d.AddComment(e, "w")
		default:
			v := rng.Pick(r, vocab)
			c := d.AddElem(e, v.Space, v.Local)
			c.NoXMLNS = e.NoXMLNS
			if r.P(30) {
				d.AddText(c, fmt.Sprint(r.Intn(50)))
			}
			if r.P(10) {
				d.AddAttr(c, "", "id", fmt.Sprint(i))
			}
		}
		lastText = false
	}
	return e
}

// ManyAttrs gives a randomly chosen element that has children k further
// attributes a1..ak (no namespace). The caller must call Finish afterwards.
func ManyAttrs(r *rng.R, d *Doc, k int) *Node {
	var cands []*Node
	for _, e := range d.Elements() {
		if len(e.Children) > 0 {
			cands = append(cands, e)
		}
	}
	if len(cands) == 0 {
		cands = d.Elements()
	}
	e := rng.Pick(r, cands)
	for i := 1; i <= k; i++ {
		d.AddAttr(e, "", fmt.Sprintf("a%d", i), fmt.Sprint(i))
	}
	return e
}

// ManyDecls gives a randomly chosen element below the document element k
// further namespace declarations of its own (prefixes m1..mk, some sorting
// before and some after the usual ones). The caller must call Finish.
func ManyDecls(r *rng.R, d *Doc, k int) *Node {
	var cands []*Node
	for _, e := range d.Elements() {
		if e.Parent != nil && e.Parent.Kind == Elem {
			cands = append(cands, e)
		}
	}
	if len(cands) == 0 {
		return nil
	}
	e := rng.Pick(r, cands)
	have := map[string]bool{}
	for _, dc := range e.Decls {
		have[dc.Prefix] = true
	}
	for i := 1; i <= k; i++ {
		p := fmt.Sprintf("%c%d", "amz"[i%3], i)
		if !have[p] {
			e.Decls = append(e.Decls, Decl{Prefix: p, URI: fmt.Sprintf("urn:m:%d", i)})
		}
	}
	return e
}

// Deepen hangs a chain of n nested elements under a randomly chosen element;
// the innermost one gets a text node, an attribute, a comment and a
// processing instruction. The caller must call Finish. Returns the innermost element.
func Deepen(r *rng.R, d *Doc, n int) *Node {
	e := rng.Pick(r, d.Elements())
	for len(e.Children) > 0 && e.Children[len(e.Children)-1].Kind == Text {
		// keep text nodes non-adjacent and the chain last
		break
	}
	cur := e
	for i := 0; i < n; i++ {
		c := d.AddElem(cur, "", rng.Pick(r, []string{"d", "d", "a", "item"}))
		c.NoXMLNS = e.NoXMLNS
		cur = c
	}
	d.AddAttr(cur, "", "id", "deep")
	d.AddText(cur, "7")
	d.AddComment(cur, "deep")
	d.AddPI(cur, "pi", "deep")
	return cur
}
