// Package adoc holds abstract XPath-data-model documents: the common input
// from which the library's cursor trees are built (through XML text or a
// scripted parser.Parser) and over which the reference evaluator runs.
package adoc

import (
	"fmt"
	"sort"
	"strings"
)

type Kind int

const (
	Root Kind = iota
	Elem
	Attr
	NS
	Text
	Comment
	PI
)

var kindNames = []string{"root", "element", "attribute", "namespace", "text", "comment", "pi"}

func (k Kind) String() string { return kindNames[k] }

const XMLNS = "http://www.w3.org/XML/1998/namespace"

// Decl is a namespace declaration written on an element. Prefix "" with URI ""
// is the undeclaration of the default namespace.
type Decl struct{ Prefix, URI string }

type Node struct {
	Kind   Kind
	Space  string // Elem, Attr: namespace URI
	Local  string // Elem, Attr: local name; NS: prefix; PI: target
	Value  string // Attr, NS (URI), Text, Comment, PI data
	Parent *Node

	Children []*Node // Root, Elem
	Attrs    []*Node // Elem
	NSNodes  []*Node // Elem: derived in-scope namespace nodes
	Decls    []Decl  // Elem: declarations in source order

	Prefix  string // Elem, Attr: serialisation prefix chosen by NormalizeNS
	NoXMLNS bool   // scripted streams that do not emit the implicit xml binding
	Ord     int    // document order index over all nodes (incl. attrs, ns)
	ID      int    // creation index, stable across re-indexing
}

type Doc struct {
	Root *Node
	All  []*Node // document order
	next int
}

func NewDoc() *Doc {
	d := &Doc{}
	d.Root = &Node{Kind: Root}
	d.Root.ID = d.next
	d.next++
	return d
}

func (d *Doc) NewNode(k Kind) *Node {
	n := &Node{Kind: k, ID: d.next}
	d.next++
	return n
}

func (d *Doc) AddChild(parent *Node, n *Node) *Node {
	n.Parent = parent
	parent.Children = append(parent.Children, n)
	return n
}

func (d *Doc) AddElem(parent *Node, space, local string) *Node {
	n := d.NewNode(Elem)
	n.Space, n.Local = space, local
	return d.AddChild(parent, n)
}

func (d *Doc) AddText(parent *Node, v string) *Node {
	n := d.NewNode(Text)
	n.Value = v
	return d.AddChild(parent, n)
}

func (d *Doc) AddComment(parent *Node, v string) *Node {
	n := d.NewNode(Comment)
	n.Value = v
	return d.AddChild(parent, n)
}

func (d *Doc) AddPI(parent *Node, target, v string) *Node {
	n := d.NewNode(PI)
	n.Local, n.Value = target, v
	return d.AddChild(parent, n)
}

func (d *Doc) AddAttr(e *Node, space, local, v string) *Node {
	n := d.NewNode(Attr)
	n.Space, n.Local, n.Value = space, local, v
	n.Parent = e
	e.Attrs = append(e.Attrs, n)
	return n
}

// Finish derives the in-scope namespace nodes of every element and indexes
// the document. Namespace node order within an element: xml, declared (in
// declaration order), inherited (in the parent's order).
func (d *Doc) Finish() {
	var walk func(n *Node, inherited []*Node)
	walk = func(n *Node, inherited []*Node) {
		if n.Kind == Elem {
			n.NSNodes = nil
			seen := map[string]bool{}
			add := func(prefix, uri string) {
				for _, x := range n.NSNodes {
					if x.Local == prefix {
						x.Value = uri
						return
					}
				}
				ns := d.NewNode(NS)
				ns.Local, ns.Value, ns.Parent = prefix, uri, n
				n.NSNodes = append(n.NSNodes, ns)
			}
			if !n.NoXMLNS {
				add("xml", XMLNS)
				seen["xml"] = true
			}
			for _, dc := range n.Decls {
				seen[dc.Prefix] = true
				if dc.Prefix == "" && dc.URI == "" {
					// undeclaration: remove a default added earlier on this element
					out := n.NSNodes[:0]
					for _, x := range n.NSNodes {
						if x.Local != "" {
							out = append(out, x)
						}
					}
					n.NSNodes = out
					continue
				}
				add(dc.Prefix, dc.URI)
			}
			for _, in := range inherited {
				if !seen[in.Local] {
					add(in.Local, in.Value)
				}
			}
			inherited = n.NSNodes
		}
		for _, c := range n.Children {
			walk(c, inherited)
		}
	}
	walk(d.Root, nil)
	d.Index()
}

// Index (re)assigns document order.
func (d *Doc) Index() {
	d.All = d.All[:0]
	var walk func(n *Node)
	walk = func(n *Node) {
		n.Ord = len(d.All)
		d.All = append(d.All, n)
		for _, x := range n.NSNodes {
			x.Ord = len(d.All)
			d.All = append(d.All, x)
		}
		for _, x := range n.Attrs {
			x.Ord = len(d.All)
			d.All = append(d.All, x)
		}
		for _, c := range n.Children {
			walk(c)
		}
	}
	walk(d.Root)
}

// InScope returns prefix->URI for an element.
func (n *Node) InScope() map[string]string {
	m := map[string]string{}
	for _, x := range n.NSNodes {
		m[x.Local] = x.Value
	}
	return m
}

// StringValue is the XPath string-value.
func (n *Node) StringValue() string {
	switch n.Kind {
	case Root, Elem:
		var sb strings.Builder
		var walk func(x *Node)
		walk = func(x *Node) {
			for _, c := range x.Children {
				switch c.Kind {
				case Text:
					sb.WriteString(c.Value)
				case Elem:
					walk(c)
				}
			}
		}
		walk(n)
		return sb.String()
	default:
		return n.Value
	}
}

// Path describes a node for witnesses: /e[1]/e[2]/@a etc.
func (n *Node) Path() string {
	if n == nil {
		return "<nil>"
	}
	if n.Kind == Root {
		return "/"
	}
	var parts []string
	for x := n; x != nil && x.Kind != Root; x = x.Parent {
		switch x.Kind {
		case Attr:
			parts = append(parts, "@"+qn(x))
		case NS:
			parts = append(parts, "namespace::"+x.Local)
		default:
			idx := 0
			if x.Parent != nil {
				for i, c := range x.Parent.Children {
					if c == x {
						idx = i + 1
					}
				}
			}
			switch x.Kind {
			case Elem:
				parts = append(parts, fmt.Sprintf("%s#%d", qn(x), idx))
			default:
				parts = append(parts, fmt.Sprintf("%s()#%d", x.Kind, idx))
			}
		}
	}
	for i, j := 0, len(parts)-1; i < j; i, j = i+1, j-1 {
		parts[i], parts[j] = parts[j], parts[i]
	}
	return "/" + strings.Join(parts, "/")
}

func qn(x *Node) string {
	if x.Space == "" {
		return x.Local
	}
	return "{" + x.Space + "}" + x.Local
}

// SortDoc sorts nodes in document order and removes duplicates.
func SortDoc(ns []*Node) []*Node {
	out := append([]*Node(nil), ns...)
	sort.Slice(out, func(i, j int) bool { return out[i].Ord < out[j].Ord })
	w := 0
	for i, n := range out {
		if i == 0 || out[i-1] != n {
			out[w] = n
			w++
		}
	}
	return out[:w]
}

// Dump gives a compact, human readable rendering (used in samples/replays).
func (d *Doc) Dump() string {
	var sb strings.Builder
	var walk func(n *Node)
	walk = func(n *Node) {
		switch n.Kind {
		case Root:
			for _, c := range n.Children {
				walk(c)
			}
		case Elem:
			sb.WriteString("<" + qn(n))
			for _, dc := range n.Decls {
				fmt.Fprintf(&sb, " xmlns:%s=%q", dc.Prefix, dc.URI)
			}
			for _, a := range n.Attrs {
				fmt.Fprintf(&sb, " %s=%q", qn(a), a.Value)
			}
			sb.WriteString(">")
			for _, c := range n.Children {
				walk(c)
			}
			sb.WriteString("</>")
		case Text:
			fmt.Fprintf(&sb, "%q", n.Value)
		case Comment:
			fmt.Fprintf(&sb, "<!--%s-->", n.Value)
		case PI:
			fmt.Fprintf(&sb, "<?%s %s?>", n.Local, n.Value)
		}
	}
	walk(d.Root)
	return sb.String()
}

// Shape is a hash-friendly structural signature (kinds and fan-out only).
func (d *Doc) Shape() string {
	var sb strings.Builder
	var walk func(n *Node)
	walk = func(n *Node) {
		sb.WriteByte("RENATCP"[n.Kind])
		if len(n.Attrs) > 0 {
			fmt.Fprintf(&sb, "%d", len(n.Attrs))
		}
		if len(n.Children) > 0 {
			sb.WriteByte('(')
			for _, c := range n.Children {
				walk(c)
			}
			sb.WriteByte(')')
		}
	}
	walk(d.Root)
	return sb.String()
}

// Elements returns all element nodes in document order.
func (d *Doc) Elements() []*Node {
	var out []*Node
	for _, n := range d.All {
		if n.Kind == Elem {
			out = append(out, n)
		}
	}
	return out
}

// Clone deep-copies the tree structure (IDs preserved for non-namespace nodes;
// namespace nodes are re-derived by Finish).
func (d *Doc) Clone() *Doc {
	nd := &Doc{next: d.next}
	var cp func(n, parent *Node) *Node
	cp = func(n, parent *Node) *Node {
		c := *n
		c.Parent = parent
		c.Children, c.Attrs, c.NSNodes = nil, nil, nil
		c.Decls = append([]Decl(nil), n.Decls...)
		out := &c
		for _, a := range n.Attrs {
			ac := *a
			ac.Parent = out
			out.Attrs = append(out.Attrs, &ac)
		}
		for _, ch := range n.Children {
			out.Children = append(out.Children, cp(ch, out))
		}
		return out
	}
	nd.Root = cp(d.Root, nil)
	nd.Finish()
	return nd
}
