package adoc

import (
	"io"

	"github.com/ChrisTrenkamp/xsel/node"
)

// Node value types handed to the store. Each satisfies exactly one of the
// node.* interfaces (an element value has no AttributeValue method, etc.).

type EElem struct{ S, L string }

func (e EElem) Space() string { return e.S }
func (e EElem) Local() string { return e.L }

type EAttr struct{ S, L, V string }

func (e EAttr) Space() string          { return e.S }
func (e EAttr) Local() string          { return e.L }
func (e EAttr) AttributeValue() string { return e.V }

type ENS struct{ P, V string }

func (e ENS) Prefix() string         { return e.P }
func (e ENS) NamespaceValue() string { return e.V }

type EText struct{ V string }

func (e EText) CharDataValue() string { return e.V }

type EComment struct{ V string }

func (e EComment) CommentValue() string { return e.V }

type EPI struct{ T, V string }

func (e EPI) Target() string        { return e.T }
func (e EPI) ProcInstValue() string { return e.V }

type Event struct {
	Node  node.Node
	End   bool
	Depth int // element nesting depth at which this event is emitted
}

// Events linearises the document as a contract-conforming parser.Parser
// stream: element, its namespace declarations (the implicit xml binding first
// unless NoXMLNS), its attributes, its content, end.
func (d *Doc) Events() []Event {
	var out []Event
	var walk func(n *Node, depth int)
	walk = func(n *Node, depth int) {
		switch n.Kind {
		case Root:
			for _, c := range n.Children {
				walk(c, depth)
			}
		case Elem:
			out = append(out, Event{Node: EElem{n.Space, n.Local}, Depth: depth})
			if !n.NoXMLNS {
				out = append(out, Event{Node: ENS{"xml", XMLNS}, Depth: depth + 1})
			}
			for _, dc := range n.Decls {
				out = append(out, Event{Node: ENS{dc.Prefix, dc.URI}, Depth: depth + 1})
			}
			for _, a := range n.Attrs {
				out = append(out, Event{Node: EAttr{a.Space, a.Local, a.Value}, Depth: depth + 1})
			}
			for _, c := range n.Children {
				walk(c, depth+1)
			}
			out = append(out, Event{End: true, Depth: depth + 1})
		case Text:
			out = append(out, Event{Node: EText{n.Value}, Depth: depth})
		case Comment:
			out = append(out, Event{Node: EComment{n.Value}, Depth: depth})
		case PI:
			out = append(out, Event{Node: EPI{n.Local, n.Value}, Depth: depth})
		}
	}
	walk(d.Root, 0)
	return out
}

// Scripted replays an event list as a parser.Parser.
type Scripted struct {
	Evs    []Event
	I      int
	OnPull func(i int, ev *Event) // observation point for trace monitors
	Err    error                  // returned instead of io.EOF at the end when set
	// EndNodes: what accompanies an end event (the Parser contract says nothing about it, the
	// store must not look at it): 0 nil, 1 the element's own start node again, 2 a separate
	// end-tag value of another type that also implements node.Element (as encoding/xml's
	// StartElement/EndElement pair would), 3 a text node
	EndNodes int
	open     []node.Node
}

// EEndTag is a distinct end-tag value.
type EEndTag struct{ S, L string }

func (e EEndTag) Space() string { return e.S }
func (e EEndTag) Local() string { return e.L }

func (s *Scripted) Pull() (node.Node, bool, error) {
	if s.I >= len(s.Evs) {
		if s.OnPull != nil {
			s.OnPull(s.I, nil)
		}
		if s.Err != nil {
			return nil, false, s.Err
		}
		return nil, false, io.EOF
	}
	ev := &s.Evs[s.I]
	if s.OnPull != nil {
		s.OnPull(s.I, ev)
	}
	s.I++
	if ev.End {
		var start node.Node
		if n := len(s.open); n > 0 {
			start = s.open[n-1]
			s.open = s.open[:n-1]
		}
		if el, ok := start.(EElem); ok {
			switch s.EndNodes {
			case 1:
				return el, true, nil
			case 2:
				return EEndTag{el.S, el.L}, true, nil
			case 3:
				return EText{V: "ignored"}, true, nil
			}
		}
		return nil, true, nil
	}
	if _, ok := ev.Node.(EElem); ok {
		s.open = append(s.open, ev.Node)
	}
	return ev.Node, false, nil
}

func (d *Doc) Parser() *Scripted { return &Scripted{Evs: d.Events()} }
