package adoc

import (
	"bytes"
	"encoding/xml"
	"fmt"
	"io"
	"strings"

	"xselverif/internal/rng"
)

// NormalizeNS makes the document serialisable as namespace-conformant XML:
// every expanded name gets a prefix that is in scope (adding declarations
// where needed, and an undeclaration of the default namespace where an
// unqualified element sits inside a default-namespace scope). The chosen
// prefixes are stored on the nodes. Call before Finish.
func (d *Doc) NormalizeNS(r *rng.R) {
	fresh := 0
	var walk func(n *Node, scope map[string]string)
	walk = func(n *Node, scope map[string]string) {
		if n.Kind == Elem {
			sc := map[string]string{}
			for k, v := range scope {
				sc[k] = v
			}
			// drop declarations XML cannot carry (duplicates, xml prefix, prefixed undeclaration)
			var decls []Decl
			seen := map[string]bool{}
			for _, dc := range n.Decls {
				if dc.Prefix == "xml" && dc.URI == XMLNS && !seen["xml"] {
					// the redundant but legal explicit declaration of the xml prefix
					seen["xml"] = true
					decls = append(decls, dc)
					continue
				}
				if seen[dc.Prefix] || dc.Prefix == "xml" || dc.Prefix == "xmlns" || (dc.Prefix != "" && dc.URI == "") || dc.URI == XMLNS {
					continue
				}
				if dc.Prefix == "" && dc.URI == "" && sc[""] == "" {
					continue // nothing to undeclare
				}
				seen[dc.Prefix] = true
				decls = append(decls, dc)
				if dc.URI == "" {
					delete(sc, "")
				} else {
					sc[dc.Prefix] = dc.URI
				}
			}
			n.Decls = decls
			declare := func(p, uri string) {
				// replace an existing declaration of p on this element, else append
				for i := range n.Decls {
					if n.Decls[i].Prefix == p {
						n.Decls[i].URI = uri
						if uri == "" {
							delete(sc, p)
						} else {
							sc[p] = uri
						}
						return
					}
				}
				n.Decls = append(n.Decls, Decl{p, uri})
				if uri == "" {
					delete(sc, p)
				} else {
					sc[p] = uri
				}
			}
			pick := func(uri string, allowDefault bool) string {
				var cands []string
				for p, u := range sc {
					if u == uri && (allowDefault || p != "") {
						cands = append(cands, p)
					}
				}
				if len(cands) == 0 {
					return "\x00"
				}
				// deterministic order, then random choice
				for i := range cands {
					for j := i + 1; j < len(cands); j++ {
						if cands[j] < cands[i] {
							cands[i], cands[j] = cands[j], cands[i]
						}
					}
				}
				return rng.Pick(r, cands)
			}
			newPrefix := func() string {
				for {
					p := fmt.Sprintf("n%d", fresh)
					fresh++
					if _, used := sc[p]; !used {
						return p
					}
				}
			}
			if n.Space == "" {
				if sc[""] != "" {
					declare("", "")
				}
				n.Prefix = ""
			} else {
				p := pick(n.Space, true)
				if p == "\x00" {
					// attributes on this element must not lose a default they rely on: they never do (attrs need prefixes)
					if r.P(40) {
						p = ""
					} else {
						p = newPrefix()
					}
					declare(p, n.Space)
				}
				n.Prefix = p
			}
			for _, a := range n.Attrs {
				switch {
				case a.Space == "":
					a.Prefix = ""
				case a.Space == XMLNS:
					a.Prefix = "xml"
				default:
					p := pick(a.Space, false)
					if p == "\x00" {
						p = newPrefix()
						declare(p, a.Space)
					}
					a.Prefix = p
				}
			}
			// the element's own prefix may have been re-declared by an attribute fix-up: re-check
			if n.Space != "" && sc[n.Prefix] != n.Space {
				p := newPrefix()
				declare(p, n.Space)
				n.Prefix = p
			}
			scope = sc
		}
		for _, c := range n.Children {
			walk(c, scope)
		}
	}
	walk(d.Root, map[string]string{})
}

// XMLOpts are serialisation choices that must not change the data model.
type XMLOpts struct {
	R        *rng.R // nil = canonical choices
	Decl     int    // 0 none, 1 version only, 2 with encoding, 3 with encoding+standalone
	Encoding string // label written in the declaration ("" = UTF-8)
	Doctype  bool
	CRLF     bool // line breaks between top-level constructs as CRLF
	TopWS    bool // whitespace between top-level constructs
}

func (o *XMLOpts) p(pct int) bool { return o.R != nil && o.R.P(pct) }

func escText(sb *strings.Builder, s string, o *XMLOpts) {
	// split into runs rendered as plain / CDATA / char refs
	rs := []rune(s)
	i := 0
	for i < len(rs) {
		// CDATA run
		if o.p(15) {
			j := i + 1 + o.R.Intn(len(rs)-i)
			chunk := string(rs[i:j])
			if !strings.Contains(chunk, "]]>") && !strings.ContainsAny(chunk, "\r") && !strings.HasSuffix(chunk, "]") {
				sb.WriteString("<![CDATA[" + chunk + "]]>")
				i = j
				continue
			}
		}
		c := rs[i]
		i++
		switch {
		case c == '<':
			sb.WriteString("&lt;")
		case c == '&':
			sb.WriteString("&amp;")
		case c == '>':
			sb.WriteString("&gt;")
		case c == '\r':
			sb.WriteString("&#13;")
		case c == '"' && o.p(50):
			sb.WriteString("&quot;")
		case c == '\'' && o.p(50):
			sb.WriteString("&apos;")
		case o.p(6):
			if o.R.Bool() {
				fmt.Fprintf(sb, "&#%d;", c)
			} else {
				fmt.Fprintf(sb, "&#x%X;", c)
			}
		default:
			sb.WriteRune(c)
		}
	}
}

func escAttr(sb *strings.Builder, s string, q byte, o *XMLOpts) {
	for _, c := range s {
		switch {
		case c == '<':
			sb.WriteString("&lt;")
		case c == '&':
			sb.WriteString("&amp;")
		case c == '>':
			sb.WriteString("&gt;")
		case c == '\t' || c == '\n' || c == '\r':
			fmt.Fprintf(sb, "&#%d;", c)
		case byte(c) == q && c < 128:
			if q == '"' {
				sb.WriteString("&quot;")
			} else {
				sb.WriteString("&apos;")
			}
		case o.p(5):
			fmt.Fprintf(sb, "&#x%x;", c)
		default:
			sb.WriteRune(c)
		}
	}
}

func qname(prefix, local string) string {
	if prefix == "" {
		return local
	}
	return prefix + ":" + local
}

// ToXML serialises a normalised document (NormalizeNS + Finish done).
func (d *Doc) ToXML(o XMLOpts) string {
	var sb strings.Builder
	nl := "\n"
	if o.CRLF {
		nl = "\r\n"
	}
	switch o.Decl {
	case 1:
		sb.WriteString(`<?xml version="1.0"?>`)
	case 2:
		enc := o.Encoding
		if enc == "" {
			enc = "UTF-8"
		}
		fmt.Fprintf(&sb, `<?xml version="1.0" encoding="%s"?>`, enc)
	case 3:
		enc := o.Encoding
		if enc == "" {
			enc = "UTF-8"
		}
		fmt.Fprintf(&sb, `<?xml version='1.0' encoding='%s' standalone='yes'?>`, enc)
	}
	if o.Decl != 0 && o.TopWS {
		sb.WriteString(nl)
	}
	var walk func(n *Node)
	walk = func(n *Node) {
		switch n.Kind {
		case Elem:
			sb.WriteString("<" + qname(n.Prefix, n.Local))
			type item struct{ name, val string }
			var items []item
			for _, dc := range n.Decls {
				name := "xmlns"
				if dc.Prefix != "" {
					name = "xmlns:" + dc.Prefix
				}
				items = append(items, item{name, dc.URI})
			}
			nd := len(items)
			for _, a := range n.Attrs {
				items = append(items, item{qname(a.Prefix, a.Local), a.Value})
			}
			// declarations may be interleaved with attributes in any order, attribute order is kept
			if o.R != nil && nd > 0 && len(items) > nd && o.R.P(50) {
				var mixed []item
				di, ai := 0, nd
				for di < nd || ai < len(items) {
					if di < nd && (ai >= len(items) || o.R.Bool()) {
						mixed = append(mixed, items[di])
						di++
					} else {
						mixed = append(mixed, items[ai])
						ai++
					}
				}
				items = mixed
			}
			for _, it := range items {
				sep := " "
				if o.p(15) {
					sep = rng.Pick(o.R, []string{"  ", "\n", "\t", " \n "})
				}
				q := byte('"')
				if o.p(40) {
					q = '\''
				}
				sb.WriteString(sep + it.name)
				if o.p(10) {
					sb.WriteString(" = ")
				} else {
					sb.WriteString("=")
				}
				sb.WriteByte(q)
				escAttr(&sb, it.val, q, &o)
				sb.WriteByte(q)
			}
			if o.p(10) {
				sb.WriteString(" ")
			}
			if len(n.Children) == 0 && !o.p(40) {
				sb.WriteString("/>")
				return
			}
			sb.WriteString(">")
			for _, c := range n.Children {
				walk(c)
			}
			sb.WriteString("</" + qname(n.Prefix, n.Local))
			if o.p(10) {
				sb.WriteString(" ")
			}
			sb.WriteString(">")
		case Text:
			escText(&sb, n.Value, &o)
		case Comment:
			sb.WriteString("<!--" + n.Value + "-->")
		case PI:
			if n.Value == "" {
				sb.WriteString("<?" + n.Local + "?>")
			} else {
				sb.WriteString("<?" + n.Local + " " + n.Value + "?>")
			}
		}
	}
	for i, c := range d.Root.Children {
		if c.Kind == Elem && o.Doctype {
			fmt.Fprintf(&sb, "<!DOCTYPE %s>", qname(c.Prefix, c.Local))
			if o.TopWS {
				sb.WriteString(nl)
			}
		}
		walk(c)
		if o.TopWS && (i+1 < len(d.Root.Children) || o.p(50)) {
			sb.WriteString(nl)
		}
	}
	return sb.String()
}

// FromXML parses XML text into an abstract document with encoding/xml (the
// platform package, independent of xsel): namespace declarations become
// Decls, adjacent character data is merged, the XML declaration and doctype
// are dropped, white space outside the document element is dropped.
func FromXML(text string) (*Doc, error) {
	dec := xml.NewDecoder(bytes.NewReader([]byte(text)))
	d := NewDoc()
	cur := d.Root
	for {
		tok, err := dec.Token()
		if err == io.EOF {
			break
		}
		if err != nil {
			return nil, err
		}
		switch t := tok.(type) {
		case xml.StartElement:
			e := d.AddElem(cur, t.Name.Space, t.Name.Local)
			for _, a := range t.Attr {
				switch {
				case a.Name.Space == "xmlns":
					e.Decls = append(e.Decls, Decl{a.Name.Local, a.Value})
				case a.Name.Space == "" && a.Name.Local == "xmlns":
					e.Decls = append(e.Decls, Decl{"", a.Value})
				default:
					d.AddAttr(e, a.Name.Space, a.Name.Local, a.Value)
				}
			}
			cur = e
		case xml.EndElement:
			cur = cur.Parent
		case xml.CharData:
			if cur.Kind == Root {
				continue
			}
			if k := len(cur.Children); k > 0 && cur.Children[k-1].Kind == Text {
				cur.Children[k-1].Value += string(t)
			} else {
				d.AddText(cur, string(t))
			}
		case xml.Comment:
			d.AddComment(cur, string(t))
		case xml.ProcInst:
			if t.Target == "xml" {
				continue
			}
			d.AddPI(cur, t.Target, string(t.Inst))
		}
	}
	d.Finish()
	return d, nil
}

// MustXML is FromXML for literals in self-tests.
func MustXML(text string) *Doc {
	d, err := FromXML(text)
	if err != nil {
		panic(err)
	}
	return d
}

// FromXMLFragment is FromXML but keeps white-space-only text at any depth > 0
// (the same as FromXML) and is tolerant of nothing else; used for CLI -m records.
func FromXMLFragment(text string) (*Doc, error) { return FromXML(text) }
