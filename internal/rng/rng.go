// Package rng is the deterministic PRNG used by every generator: SplitMix64
// streams derived from (seed, label). No wall clock, no global state.
package rng

import (
	"hash/fnv"
	"math"
)

type R struct{ s uint64 }

func New(seed uint64, label string) *R {
	h := fnv.New64a()
	h.Write([]byte(label))
	r := &R{s: seed*0x9E3779B97F4A7C15 ^ h.Sum64()}
	r.U64()
	return r
}

// Sub derives an independent stream.
func (r *R) Sub(label string) *R {
	return New(r.U64(), label)
}

func (r *R) U64() uint64 {
	r.s += 0x9E3779B97F4A7C15
	z := r.s
	z = (z ^ (z >> 30)) * 0xBF58476D1CE4E5B9
	z = (z ^ (z >> 27)) * 0x94D049BB133111EB
	return z ^ (z >> 31)
}

func (r *R) Intn(n int) int {
	if n <= 0 {
		return 0
	}
	return int(r.U64() % uint64(n))
}

// Range returns a value in [lo,hi].
func (r *R) Range(lo, hi int) int {
	if hi <= lo {
		return lo
	}
	return lo + r.Intn(hi-lo+1)
}

func (r *R) Bool() bool { return r.U64()&1 == 1 }

// P is true with probability pct/100.
func (r *R) P(pct int) bool { return r.Intn(100) < pct }

func (r *R) F01() float64 { return float64(r.U64()>>11) / (1 << 53) }

func (r *R) Bits() float64 { return math.Float64frombits(r.U64()) }

func Pick[T any](r *R, xs []T) T {
	return xs[r.Intn(len(xs))]
}

func Shuffle[T any](r *R, xs []T) {
	for i := len(xs) - 1; i > 0; i-- {
		j := r.Intn(i + 1)
		xs[i], xs[j] = xs[j], xs[i]
	}
}
