// Package evid: verdict bookkeeping for one check run — evaluations, distinct
// non-trivial case signatures, samples, coverage tables, violations with
// replay files, known findings — and the evidence file writer.
package evid

import (
	"bufio"
	"crypto/sha256"
	"encoding/hex"
	"encoding/json"
	"fmt"
	"hash/fnv"
	"os"
	"path/filepath"
	"sort"
	"strings"
	"sync"
	"time"
)

var VerifDir = "/verif"

// ReplayMode: do not write evidence or replay files.
var ReplayMode bool

type Finding struct {
	Property string
	ID       string
	Quirk    string
	Desc     string
}

type Violation struct {
	Class  string `json:"class"`
	Replay string `json:"replay"`
}

type Run struct {
	Prop  string
	Tier  string
	Seed  uint64
	Rule  string
	Level string

	Assumptions []string

	mu           sync.Mutex
	start        time.Time
	evaluations  int64
	distinct     map[uint64]struct{}
	samples      []any
	sampleKeys   map[string]int
	cover        map[string]int64
	tables       map[string]map[string]int64
	extra        map[string]any
	violations   []Violation
	violClasses  map[string]int
	inconclusive int64
	inconcNotes  []string
	findings     map[string]*Finding // open findings for this property, by id
	knownHits    map[string]int64
	knownWhat    map[string]string
	broken       []string
}

func NewRun(prop, tier string, seed uint64) *Run {
	r := &Run{Prop: prop, Tier: tier, Seed: seed, Level: "exploration", start: time.Now(),
		distinct: map[uint64]struct{}{}, cover: map[string]int64{}, tables: map[string]map[string]int64{},
		extra: map[string]any{}, violClasses: map[string]int{}, findings: map[string]*Finding{},
		knownHits: map[string]int64{}, knownWhat: map[string]string{}, sampleKeys: map[string]int{}}
	r.loadFindings()
	return r
}

func (r *Run) loadFindings() {
	f, err := os.Open(filepath.Join(VerifDir, "KNOWN_FINDINGS.txt"))
	if err != nil {
		return
	}
	defer f.Close()
	sc := bufio.NewScanner(f)
	sc.Buffer(make([]byte, 1<<20), 1<<20)
	for sc.Scan() {
		line := strings.TrimSpace(sc.Text())
		if !strings.HasPrefix(line, "finding:") {
			continue // comments and "fixed:" lines switch nothing
		}
		head, desc, _ := strings.Cut(strings.TrimPrefix(line, "finding:"), "::")
		fd := &Finding{Desc: strings.TrimSpace(desc)}
		for _, kv := range strings.Fields(head) {
			k, v, _ := strings.Cut(kv, "=")
			switch k {
			case "property":
				fd.Property = v
			case "id":
				fd.ID = v
			case "quirk":
				fd.Quirk = v
			}
		}
		if fd.Property == r.Prop && fd.ID != "" {
			r.findings[fd.ID] = fd
		}
	}
}

// Open reports whether a finding id is listed as open for this property.
func (r *Run) Open(id string) bool {
	_, ok := r.findings[id]
	return ok
}

// KnownHit records that a case failed exactly as the listed finding describes.
func (r *Run) KnownHit(id, what string) {
	r.mu.Lock()
	defer r.mu.Unlock()
	r.knownHits[id]++
	if _, ok := r.knownWhat[id]; !ok {
		r.knownWhat[id] = what
	}
}

func (r *Run) Eval(n int) {
	r.mu.Lock()
	r.evaluations += int64(n)
	r.mu.Unlock()
}

// Sig records a case signature; only non-trivial ones count as distinct.
func (r *Run) Sig(sig string, nontrivial bool) {
	if !nontrivial {
		return
	}
	h := fnv.New64a()
	h.Write([]byte(sig))
	k := h.Sum64()
	r.mu.Lock()
	r.distinct[k] = struct{}{}
	r.mu.Unlock()
}

// Sample keeps up to perKey samples for each key (so different case classes show up).
func (r *Run) Sample(key string, perKey int, x any) {
	r.mu.Lock()
	defer r.mu.Unlock()
	if r.sampleKeys[key] >= perKey || len(r.samples) >= 40 {
		return
	}
	r.sampleKeys[key]++
	r.samples = append(r.samples, x)
}

func (r *Run) Count(key string, n int) {
	r.mu.Lock()
	r.cover[key] += int64(n)
	r.mu.Unlock()
}

// Tab increments a cell of a named coverage table.
func (r *Run) Tab(table, cell string, n int) {
	r.mu.Lock()
	t := r.tables[table]
	if t == nil {
		t = map[string]int64{}
		r.tables[table] = t
	}
	t[cell] += int64(n)
	r.mu.Unlock()
}

func (r *Run) Set(key string, v any) {
	r.mu.Lock()
	r.extra[key] = v
	r.mu.Unlock()
}

func (r *Run) Inconclusive(note string) {
	r.mu.Lock()
	r.inconclusive++
	if len(r.inconcNotes) < 10 {
		r.inconcNotes = append(r.inconcNotes, note)
	}
	r.mu.Unlock()
}

// Broken marks the check itself as broken (exit 2).
func (r *Run) Broken(note string) {
	r.mu.Lock()
	if len(r.broken) < 10 {
		r.broken = append(r.broken, note)
	}
	r.mu.Unlock()
}

func (r *Run) NViolations() int {
	r.mu.Lock()
	defer r.mu.Unlock()
	n := 0
	for _, c := range r.violClasses {
		n += c
	}
	return n
}

// Violate records a violation. class groups similar violations (at most 3
// replay files and VIOLATION lines per class, 60 overall); witness must be
// self-contained JSON-able data.
func (r *Run) Violate(class string, witness map[string]any) {
	r.mu.Lock()
	defer r.mu.Unlock()
	r.violClasses[class]++
	if r.violClasses[class] > 3 || len(r.violations) >= 60 {
		return
	}
	witness["property"] = r.Prop
	witness["class"] = class
	witness["seed"] = r.Seed
	witness["tier"] = r.Tier
	b, _ := json.MarshalIndent(witness, "", " ")
	sum := sha256.Sum256(b)
	dir := filepath.Join(VerifDir, "replays", r.Prop)
	os.MkdirAll(dir, 0o755)
	path := filepath.Join(dir, hex.EncodeToString(sum[:6])+".json")
	if ReplayMode {
		fmt.Printf("%s\n", b)
	} else {
		os.WriteFile(path, b, 0o644)
	}
	r.violations = append(r.violations, Violation{Class: class, Replay: path})
	fmt.Printf("VIOLATION property=%s replay=%s\n", r.Prop, path)
	fmt.Printf("  class: %s\n", class)
	if w, ok := witness["what"]; ok {
		fmt.Printf("  what: %v\n", w)
	}
}

// Finish writes the evidence file and returns the process exit code.
func (r *Run) Finish() int {
	r.mu.Lock()
	defer r.mu.Unlock()
	cov := map[string]any{
		"evaluations":         r.evaluations,
		"distinct_nontrivial": len(r.distinct),
		"rule":                r.Rule,
		"samples":             r.samples,
		"counters":            r.cover,
		"tables":              r.tables,
		"inconclusive":        r.inconclusive,
		"inconclusive_notes":  r.inconcNotes,
		"known_findings_hit":  r.knownHits,
		"violation_classes":   r.violClasses,
	}
	for k, v := range r.extra {
		cov[k] = v
	}
	if r.samples == nil {
		cov["samples"] = []any{}
	}
	nviol := 0
	for _, c := range r.violClasses {
		nviol += c
	}
	if r.Assumptions == nil {
		r.Assumptions = []string{}
	}
	ev := map[string]any{
		"property_id": r.Prop,
		"tier":        r.Tier,
		"seed":        r.Seed,
		"level":       r.Level,
		"coverage":    cov,
		"assumptions": r.Assumptions,
		"wall_s":      time.Since(r.start).Seconds(),
		"violations":  nviol,
	}
	b, _ := json.MarshalIndent(ev, "", " ")
	dir := filepath.Join(VerifDir, "evidence")
	if !ReplayMode {
		os.MkdirAll(dir, 0o755)
		if err := os.WriteFile(filepath.Join(dir, r.Prop+".json"), b, 0o644); err != nil {
			fmt.Println("cannot write evidence:", err)
			return 2
		}
	}
	ids := make([]string, 0, len(r.knownHits))
	for id := range r.knownHits {
		ids = append(ids, id)
	}
	sort.Strings(ids)
	for _, id := range ids {
		fmt.Printf("KNOWN-FINDING: property=%s %s [%s; %d cases this run; e.g. %s]\n", r.Prop, r.findings[id].Desc, id, r.knownHits[id], r.knownWhat[id])
	}
	fmt.Printf("%s %s seed=%d: evaluations=%d distinct_nontrivial=%d violations=%d inconclusive=%d wall=%.1fs\n",
		r.Prop, r.Tier, r.Seed, r.evaluations, len(r.distinct), nviol, r.inconclusive, time.Since(r.start).Seconds())
	if nviol > 0 {
		keys := make([]string, 0, len(r.violClasses))
		for k := range r.violClasses {
			keys = append(keys, k)
		}
		sort.Strings(keys)
		for _, k := range keys {
			fmt.Printf("  %6d × %s\n", r.violClasses[k], k)
		}
		return 1
	}
	if len(r.broken) > 0 {
		for _, b := range r.broken {
			fmt.Println("BROKEN:", b)
		}
		return 2
	}
	if ReplayMode {
		return 0
	}
	if r.evaluations == 0 || len(r.distinct) < 2 {
		fmt.Println("INCONCLUSIVE: the monitor observed too few events")
		return 2
	}
	return 0
}

// ---- shard export / import (child processes of one check) ----

type shardState struct {
	Evaluations  int64                       `json:"evaluations"`
	Distinct     []uint64                    `json:"distinct"`
	Samples      []any                       `json:"samples"`
	SampleKeys   map[string]int              `json:"sample_keys"`
	Cover        map[string]int64            `json:"cover"`
	Tables       map[string]map[string]int64 `json:"tables"`
	Extra        map[string]any              `json:"extra"`
	ViolClasses  map[string]int              `json:"viol_classes"`
	Inconclusive int64                       `json:"inconclusive"`
	InconcNotes  []string                    `json:"inconc_notes"`
	KnownHits    map[string]int64            `json:"known_hits"`
	KnownWhat    map[string]string           `json:"known_what"`
	Broken       []string                    `json:"broken"`
}

// ExportShard writes the run's state to path (used by a shard child instead of Finish).
func (r *Run) ExportShard(path string) error {
	r.mu.Lock()
	defer r.mu.Unlock()
	st := shardState{Evaluations: r.evaluations, Samples: r.samples, SampleKeys: r.sampleKeys, Cover: r.cover, Tables: r.tables, Extra: r.extra,
		ViolClasses: r.violClasses, Inconclusive: r.inconclusive, InconcNotes: r.inconcNotes, KnownHits: r.knownHits, KnownWhat: r.knownWhat, Broken: r.broken}
	for k := range r.distinct {
		st.Distinct = append(st.Distinct, k)
	}
	b, err := json.Marshal(st)
	if err != nil {
		return err
	}
	return os.WriteFile(path, b, 0o644)
}

// ImportShard merges a shard's state into the parent run.
func (r *Run) ImportShard(path string) error {
	b, err := os.ReadFile(path)
	if err != nil {
		return err
	}
	var st shardState
	if err := json.Unmarshal(b, &st); err != nil {
		return err
	}
	r.mu.Lock()
	defer r.mu.Unlock()
	r.evaluations += st.Evaluations
	for _, k := range st.Distinct {
		r.distinct[k] = struct{}{}
	}
	for _, s := range st.Samples {
		if len(r.samples) < 40 {
			r.samples = append(r.samples, s)
		}
	}
	for k, v := range st.Cover {
		r.cover[k] += v
	}
	for t, cells := range st.Tables {
		if r.tables[t] == nil {
			r.tables[t] = map[string]int64{}
		}
		for c, v := range cells {
			r.tables[t][c] += v
		}
	}
	for k, v := range st.Extra {
		r.extra[k] = v
	}
	for k, v := range st.ViolClasses {
		r.violClasses[k] += v
	}
	r.inconclusive += st.Inconclusive
	for _, n := range st.InconcNotes {
		if len(r.inconcNotes) < 10 {
			r.inconcNotes = append(r.inconcNotes, n)
		}
	}
	for k, v := range st.KnownHits {
		r.knownHits[k] += v
		if _, ok := r.knownWhat[k]; !ok {
			r.knownWhat[k] = st.KnownWhat[k]
		}
	}
	for _, b := range st.Broken {
		if len(r.broken) < 10 {
			r.broken = append(r.broken, b)
		}
	}
	return nil
}
