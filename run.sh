#!/bin/bash
# ./run.sh <Cnn> <quick|thorough>   | ./run.sh replay <file> | ./run.sh build | ./run.sh selftest
# Env: VERIF_SEED, VERIF_TIER, VERIF_SCALE, VERIF_WORKERS;
#      VERIF_REPO=<dir> tests another checkout of xsel instead of /repo (selfcheck on mutants),
#      VERIF_OUT=<dir> puts binaries, evidence, replays and scratch files there instead of /verif.
set -u
cd "$(dirname "$0")"
export GOFLAGS=-mod=mod GOPROXY=off GOSUMDB=off GOTOOLCHAIN=local
OUT="${VERIF_OUT:-$(pwd)}"
export VERIF_DIR="$OUT"
mkdir -p "$OUT/bin" "$OUT/evidence" "$OUT/replays" "$OUT/work"
MODFLAG=""
if [ -n "${VERIF_REPO:-}" ]; then
  sed "s#=> /repo#=> ${VERIF_REPO}#" go.mod > "$OUT/go.alt.mod"
  cp go.sum "$OUT/go.alt.sum"
  MODFLAG="-modfile=$OUT/go.alt.mod"
fi
if [ "$OUT" != "$(pwd)" ]; then
  cp KNOWN_FINDINGS.txt "$OUT/KNOWN_FINDINGS.txt"
fi
build() {
  # always rebuilds from the repository's current working tree (go build caches unchanged packages)
  go build $MODFLAG -tags verif -o "$OUT/bin/xvmon" ./cmd/xvmon || { echo "BROKEN: build failed"; exit 2; }
}
build_race() {
  go build $MODFLAG -race -tags verif -o "$OUT/bin/xvmon-race" ./cmd/xvmon || { echo "BROKEN: race build failed"; exit 2; }
  go build $MODFLAG -race -tags verif -o "$OUT/bin/xsel-race" github.com/ChrisTrenkamp/xsel/xsel || { echo "BROKEN: CLI race build failed"; exit 2; }
}
build_cli() {
  go build $MODFLAG -tags verif -o "$OUT/bin/xsel" github.com/ChrisTrenkamp/xsel/xsel || { echo "BROKEN: CLI build failed"; exit 2; }
}
case "${1:-}" in
  build) build; build_race; build_cli ;;
  selftest) build; exec "$OUT/bin/xvmon" selftest ;;
  refcheck) build; exec "$OUT/bin/xvmon" refcheck "${2:-200}" ;;
  replay) build; build_cli; exec "$OUT/bin/xvmon" replay "$2" ;;
  C14) build; build_race; exec "$OUT/bin/xvmon" check "$1" "${2:-${VERIF_TIER:-quick}}" ;;
  C20) build; build_cli; exec "$OUT/bin/xvmon" check "$1" "${2:-${VERIF_TIER:-quick}}" ;;
  C*) build; exec "$OUT/bin/xvmon" check "$1" "${2:-${VERIF_TIER:-quick}}" ;;
  *) echo "usage: $0 <Cnn> <quick|thorough> | replay <file> | build | selftest"; exit 2 ;;
esac
