#!/bin/bash
# ./run.sh <Cnn> <quick|thorough>   | ./run.sh replay <file> | ./run.sh build | ./run.sh selftest
set -u
cd "$(dirname "$0")"
export GOFLAGS=-mod=mod GOPROXY=off GOSUMDB=off GOTOOLCHAIN=local
export VERIF_DIR="$(pwd)"
mkdir -p bin evidence replays work
build() {
  # always rebuilds from /repo's current working tree (go build caches unchanged packages)
  go build -tags verif -o bin/xvmon ./cmd/xvmon || { echo "BROKEN: build failed"; exit 2; }
}
case "${1:-}" in
  build) build ;;
  selftest) build; exec bin/xvmon selftest ;;
  replay) build; exec bin/xvmon replay "$2" ;;
  C*) build; exec bin/xvmon check "$1" "${2:-${VERIF_TIER:-quick}}" ;;
  *) echo "usage: $0 <Cnn> <quick|thorough> | replay <file> | build | selftest"; exit 2 ;;
esac
