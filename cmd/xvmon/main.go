// xvmon: driver for the runtime monitors. Usage:
//
//	xvmon check <Cnn> <quick|thorough>
//	xvmon replay <replay.json>
//	xvmon selftest
//	xvmon child <kind> <args...>   (internal: isolated child processes)
package main

import (
	"encoding/json"
	"fmt"
	"os"
	"strconv"

	"xselverif/internal/evid"
	"xselverif/internal/mon"
)

func seed() uint64 {
	if s := os.Getenv("VERIF_SEED"); s != "" {
		if n, err := strconv.ParseUint(s, 10, 64); err == nil {
			return n
		}
		if n, err := strconv.ParseInt(s, 10, 64); err == nil {
			return uint64(n)
		}
	}
	return 1
}

func main() {
	if d := os.Getenv("VERIF_DIR"); d != "" {
		evid.VerifDir = d
	}
	if len(os.Args) < 2 {
		fmt.Println("usage: xvmon check <Cnn> <quick|thorough> | replay <file> | selftest | list")
		os.Exit(2)
	}
	switch os.Args[1] {
	case "list":
		for _, id := range mon.IDs() {
			fmt.Println(id)
		}
	case "selftest":
		os.Exit(mon.SelfTest(true))
	case "refcheck":
		n := 200
		if len(os.Args) > 2 {
			if v, err := strconv.Atoi(os.Args[2]); err == nil {
				n = v
			}
		}
		os.Exit(mon.RefCheck(seed(), n, true))
	case "check":
		if len(os.Args) < 4 {
			fmt.Println("usage: xvmon check <Cnn> <quick|thorough>")
			os.Exit(2)
		}
		tier := os.Args[3]
		if tier != "quick" && tier != "thorough" {
			fmt.Println("tier must be quick or thorough")
			os.Exit(2)
		}
		if rc := mon.SelfTest(false); rc != 0 {
			fmt.Println("BROKEN: reference model self-test failed")
			os.Exit(2)
		}
		os.Exit(mon.RunMonitor(os.Args[2], tier, seed(), -1))
	case "replay":
		b, err := os.ReadFile(os.Args[2])
		if err != nil {
			fmt.Println(err)
			os.Exit(2)
		}
		var w struct {
			Property string `json:"property"`
			Seed     uint64 `json:"seed"`
			Tier     string `json:"tier"`
			Case     *int   `json:"case"`
		}
		if err := json.Unmarshal(b, &w); err != nil {
			fmt.Println(err)
			os.Exit(2)
		}
		evid.ReplayMode = true
		only := -1
		if w.Case != nil {
			only = *w.Case
		}
		os.Exit(mon.RunMonitor(w.Property, w.Tier, w.Seed, only))
	case "child":
		os.Exit(mon.Child(os.Args[2:]))
	case "shard": // shard <id> <tier> <seed> <k> <n> <dir>
		sd, _ := strconv.ParseUint(os.Args[4], 10, 64)
		k, _ := strconv.Atoi(os.Args[5])
		n, _ := strconv.Atoi(os.Args[6])
		os.Exit(mon.RunShard(os.Args[2], os.Args[3], sd, k, n, os.Args[7]))
	default:
		fmt.Println("unknown command", os.Args[1])
		os.Exit(2)
	}
}
