#!/usr/bin/env python3
"""Prints the budget table of DESIGN.md section 13 from the quick evidence files and a thorough-sweep log."""
import json, re, sys, glob
thor = {}
if len(sys.argv) > 1:
    for line in open(sys.argv[1]):
        m = re.match(r"(C\d\d) thorough seed=(\d+): evaluations=(\d+) distinct_nontrivial=(\d+) violations=(\d+) inconclusive=(\d+) wall=([\d.]+)s", line)
        if m:
            thor[m.group(1)] = (int(m.group(3)), int(m.group(4)), int(m.group(5)), float(m.group(7)))
print("| check | quick evaluations | quick distinct non-trivial | quick wall | thorough evaluations | thorough distinct non-trivial | thorough wall |")
print("|---|---|---|---|---|---|---|")
for f in sorted(glob.glob("evidence/C*.json")):
    e = json.load(open(f))
    pid = e["property_id"]
    c = e["coverage"]
    t = thor.get(pid)
    ts = "%s | %s | %.0f s" % (f"{t[0]:,}", f"{t[1]:,}", t[3]) if t else "– | – | –"
    print("| %s | %s | %s | %.0f s | %s |" % (pid, f"{c['evaluations']:,}", f"{c['distinct_nontrivial']:,}", e["wall_s"], ts))
