#!/bin/bash
# selfcheck.sh <mutant> <Cnn> [more Cnn...]
#   <mutant> = revert:<commit>   (revert one fix: commit of /repo)
#            | <path to patch.diff>
# Creates a scratch worktree of /repo outside /repo and /verif, applies the mutant,
# confirms it compiles and passes the repository's test suite, runs the quick
# checks against it (evidence etc. go to a scratch dir), prints the verdict,
# and removes everything.
set -u
export GOFLAGS=-mod=mod GOPROXY=off GOSUMDB=off GOTOOLCHAIN=local
MUT="$1"; shift
HERE="$(cd "$(dirname "$0")" && pwd)"
WT="$(mktemp -d /tmp/xsel-mut-XXXXXX)"
OUTD="$(mktemp -d /tmp/xsel-mutout-XXXXXX)"
cleanup() { git -C /repo worktree remove --force "$WT" >/dev/null 2>&1; rm -rf "$WT" "$OUTD"; git -C /repo worktree prune; }
trap cleanup EXIT
git -C /repo worktree add --detach "$WT" HEAD >/dev/null 2>&1 || { echo "cannot create worktree"; exit 2; }
case "$MUT" in
  revert:*) (cd "$WT" && git revert --no-commit "${MUT#revert:}" >/dev/null 2>&1) || { echo "MUTANT $MUT: revert does not apply"; exit 3; } ;;
  *) (cd "$WT" && git apply "$MUT") || { echo "MUTANT $MUT: patch does not apply"; exit 3; } ;;
esac
(cd "$WT" && go build ./... && go test -vet=off -count=1 ./... >/dev/null 2>&1) || { echo "MUTANT $MUT: does not compile or fails the test suite"; exit 3; }
rc_all=0
for C in "$@"; do
  t0=$(date +%s)
  VERIF_REPO="$WT" VERIF_OUT="$OUTD" "$HERE/run.sh" "$C" quick > "$OUTD/log.$C" 2>&1
  rc=$?
  t1=$(date +%s)
  nv=$(grep -c '^VIOLATION' "$OUTD/log.$C")
  first=$(grep -m1 -A2 '^VIOLATION' "$OUTD/log.$C" | tr '\n' ' ' | cut -c1-300)
  echo "MUTANT $MUT check=$C exit=$rc violations_printed=$nv wall=$((t1-t0))s :: $first"
  [ $rc -eq 1 ] || rc_all=1
done
exit $rc_all
