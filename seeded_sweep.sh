#!/bin/bash
# seeded_sweep.sh [out-file]: run every filed mutant under seeded/ against the quick check of its property.
cd "$(dirname "$0")"
OUT="${1:-seeded/RESULTS_all.txt}"
: > "$OUT.tmp"
for d in seeded/C??-?; do
  id=$(basename "$d"); p=${id%%-*}
  ./selfcheck.sh "$PWD/$d/patch.diff" "$p" 2>&1 | grep '^MUTANT' | cut -c1-420 >> "$OUT.tmp"
done
mv "$OUT.tmp" "$OUT"
grep -c "exit=1" "$OUT"; grep -v "exit=1" "$OUT"
