#!/bin/bash
# seeded_verify.sh <Cnn> <A|B> : confirm a sub-agent's seeded change ourselves in a scratch
# worktree (applies, compiles, suite passes, demo fails with it and passes without), then file it
# under /verif/seeded/<Cnn>-<X>/ (patch.diff, demo, meta.json).
set -u
export GOFLAGS=-mod=mod GOPROXY=off GOSUMDB=off GOTOOLCHAIN=local
P="$1"; X="$2"; SRC="${SEED_SRC:-/tmp/seedout-$P}"
WT="$(mktemp -d /tmp/xsel-seedchk-XXXXXX)"
cleanup() { git -C /repo worktree remove --force "$WT" >/dev/null 2>&1; rm -rf "$WT"; git -C /repo worktree prune; }
trap cleanup EXIT
git -C /repo worktree add --detach "$WT" HEAD >/dev/null 2>&1 || { echo "$P-$X: cannot create worktree"; exit 2; }
run_demo() { # prints PASS or FAIL
  if [ -f "$SRC/demo$X.sh" ]; then
    if bash "$SRC/demo$X.sh" "$WT" >/dev/null 2>&1; then echo PASS; else echo FAIL; fi
  else
    cp "$SRC/demo${X}_test.go" "$WT/zz_demo${X}_test.go"
    if (cd "$WT" && go test -race -vet=off -count=1 -run 'Demo|demo|C[0-9][0-9]' . >/dev/null 2>&1); then echo PASS; else echo FAIL; fi
    rm -f "$WT/zz_demo${X}_test.go"
  fi
}
clean=$(run_demo)
(cd "$WT" && git apply "$SRC/mut$X.diff") || { echo "$P-$X: patch does not apply to current HEAD"; exit 3; }
(cd "$WT" && go build ./... && go test -vet=off -count=1 ./... >/dev/null 2>&1) || { echo "$P-$X: does not compile or fails the suite"; exit 3; }
mut=$(run_demo)
echo "$P-$X: demo on clean tree=$clean, with change=$mut"
if [ "$clean" = PASS ] && [ "$mut" = FAIL ]; then
  D="/verif/seeded/$P-$X"; mkdir -p "$D"
  (cd "$WT" && git diff) > "$D/patch.diff"
  if [ -f "$SRC/demo$X.sh" ]; then cp "$SRC/demo$X.sh" "$D/demo.sh"; else cp "$SRC/demo${X}_test.go" "$D/demo_test.go"; fi
  python3 - "$SRC/meta$X.json" "$D/meta.json" "$P" <<'PY'
import json,sys
m=json.load(open(sys.argv[1]))
out={"property":sys.argv[3],"breaks":m.get("breaks"),"needs_to_manifest":m.get("needs_to_manifest"),"files_changed":m.get("files_changed"),
     "origin":"fresh sub-agent given only the property text and a scratch worktree","agent_ran":m.get("ran"),
     "confirmed_by_us":["git apply on /repo HEAD in a scratch worktree","go build ./... && go test -vet=off -count=1 ./... pass with the change","demo passes on the clean tree and fails with the change (go test -race for Go demos)"],
     "demo":"demo_test.go goes in the module root (package xsel_test); demo.sh takes the worktree root as $1"}
json.dump(out,open(sys.argv[2],"w"),indent=1)
PY
  exit 0
fi
exit 4
