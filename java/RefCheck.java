// RefCheck: evaluates batches of (document, context node, expression, expected type) with the JDK's
// XPath 1.0 engine (javax.xml.xpath). Used only to cross-validate the reference evaluator of the
// verification framework (DESIGN section 3.2); never a deciding oracle for xsel.
//
// Input (stdin, one record per line, fields base64 where noted):
//   DOC <b64 xml>
//   NS <prefix> <b64 uri>          (bindings for the following expressions of this document)
//   EXPR <type N|S|B|X> <ctx locator or /> <b64 expr>
// Output: one line per EXPR:  RES <b64 value>   |   ERR <b64 message>
// Node-set values are rendered as space separated locators: child indices from the document node,
// e.g. /0/2/1 and for attributes /0/2/@{uri}local .
import java.io.*;
import java.nio.charset.StandardCharsets;
import java.util.*;
import javax.xml.namespace.NamespaceContext;
import javax.xml.parsers.*;
import javax.xml.xpath.*;
import org.w3c.dom.*;
import org.xml.sax.InputSource;

public class RefCheck {
    static String b64(String s) { return Base64.getEncoder().encodeToString(s.getBytes(StandardCharsets.UTF_8)); }
    static String unb64(String s) { return new String(Base64.getDecoder().decode(s), StandardCharsets.UTF_8); }

    static String locator(Node n) {
        if (n.getNodeType() == Node.DOCUMENT_NODE) return "/";
        if (n.getNodeType() == Node.ATTRIBUTE_NODE) {
            Attr a = (Attr) n;
            String uri = a.getNamespaceURI() == null ? "" : a.getNamespaceURI().replace("/", "%2F");
            String local = a.getLocalName() == null ? a.getName() : a.getLocalName();
            String owner = locator(a.getOwnerElement());
            return (owner.equals("/") ? "" : owner) + "/@{" + uri + "}" + local;
        }
        Node p = n.getParentNode();
        int idx = 0;
        for (Node s = p.getFirstChild(); s != null && s != n; s = s.getNextSibling()) {
            if (s.getNodeType() != Node.DOCUMENT_TYPE_NODE) idx++;
        }
        String pl = locator(p);
        return (pl.equals("/") ? "" : pl) + "/" + idx;
    }

    static Node resolve(Document d, String loc) {
        if (loc.equals("/")) return d;
        Node cur = d;
        for (String part : loc.substring(1).split("/")) {
            if (part.startsWith("@")) {
                String uri = part.substring(2, part.indexOf('}')).replace("%2F", "/");
                String local = part.substring(part.indexOf('}') + 1);
                NamedNodeMap as = cur.getAttributes();
                for (int i = 0; i < as.getLength(); i++) {
                    Attr a = (Attr) as.item(i);
                    String au = a.getNamespaceURI() == null ? "" : a.getNamespaceURI();
                    String al = a.getLocalName() == null ? a.getName() : a.getLocalName();
                    if (au.equals(uri) && al.equals(local)) return a;
                }
                return null;
            }
            int want = Integer.parseInt(part), idx = 0;
            Node c = cur.getFirstChild();
            for (; c != null; c = c.getNextSibling()) {
                if (c.getNodeType() == Node.DOCUMENT_TYPE_NODE) continue;
                if (idx == want) break;
                idx++;
            }
            cur = c;
            if (cur == null) return null;
        }
        return cur;
    }

    public static void main(String[] args) throws Exception {
        BufferedReader in = new BufferedReader(new InputStreamReader(System.in, StandardCharsets.UTF_8));
        PrintStream out = new PrintStream(new FileOutputStream(FileDescriptor.out), false, "UTF-8");
        DocumentBuilderFactory f = DocumentBuilderFactory.newInstance();
        f.setNamespaceAware(true);
        f.setCoalescing(true);
        f.setExpandEntityReferences(true);
        DocumentBuilder b = f.newDocumentBuilder();
        XPathFactory xf = XPathFactory.newInstance();
        Document doc = null;
        final Map<String, String> ns = new HashMap<>();
        String line;
        while ((line = in.readLine()) != null) {
            String[] p = line.split(" ");
            if (p[0].equals("DOC")) {
                doc = b.parse(new InputSource(new StringReader(unb64(p[1]))));
                ns.clear();
                ns.put("xml", "http://www.w3.org/XML/1998/namespace");
            } else if (p[0].equals("NS")) {
                ns.put(p[1], unb64(p[2]));
            } else if (p[0].equals("EXPR")) {
                try {
                    XPath xp = xf.newXPath();
                    xp.setNamespaceContext(new NamespaceContext() {
                        public String getNamespaceURI(String prefix) { String u = ns.get(prefix); return u == null ? "" : u; }
                        public String getPrefix(String uri) { return null; }
                        public Iterator<String> getPrefixes(String uri) { return null; }
                    });
                    Node ctx = resolve(doc, p[2]);
                    if (ctx == null) { out.println("ERR " + b64("context not found")); continue; }
                    String expr = unb64(p[3]);
                    String res;
                    switch (p[1]) {
                        case "N": {
                            Double d = (Double) xp.evaluate(expr, ctx, XPathConstants.NUMBER);
                            res = Double.isNaN(d) ? "NaN" : Double.toString(d);
                            break;
                        }
                        case "S": res = (String) xp.evaluate(expr, ctx, XPathConstants.STRING); break;
                        case "B": res = ((Boolean) xp.evaluate(expr, ctx, XPathConstants.BOOLEAN)).toString(); break;
                        default: {
                            NodeList nl = (NodeList) xp.evaluate(expr, ctx, XPathConstants.NODESET);
                            StringBuilder sb = new StringBuilder();
                            for (int i = 0; i < nl.getLength(); i++) {
                                if (i > 0) sb.append(' ');
                                sb.append(locator(nl.item(i)));
                            }
                            res = sb.toString();
                        }
                    }
                    out.println("RES " + b64(res));
                } catch (Exception e) {
                    out.println("ERR " + b64(String.valueOf(e.getMessage())));
                }
            }
        }
        out.flush();
    }
}
